"""C04 - a damaged stream yields an intact prefix, never altered records.

Abstract frame model: a stream is frames back to back, frame i = 4-byte length prefix + L_i body bytes. Byte strings are
`Chunk(offset, length)`, the file is `AbsFile(pos, limit)`; offsets, lengths < 2^32 and the cut position are symbolic.
The msgpack layer is replaced by its contract (a value is decoded iff it is handed exactly the frame's body; validated
concretely on every run by truncating real frames at every byte).
"""
import io
import os
import struct as _struct
import types

from harness.common import cex_args, mk, tempdir

PROPERTY = "C04"
FUNCTIONS = [
    "flow.record.stream:RecordStreamReader.read",
    "flow.record.stream:RecordStreamReader.readheader",
    "flow.record.stream:RecordStreamReader.__iter__",
    "flow.record.stream:RecordStreamWriter.write",
    "flow.record.stream:RecordStreamWriter.writeheader",
    "flow.record.packer:RecordPacker.unpack_obj",
]
BOUNDS = {
    "read step": "frame start o >= 0, body length 0 <= L < 2^32, file end limit >= o: all values (inductive step: the post-state is again 'at a frame boundary')",
    "iteration": "k = 3 frames of every kind vector in {magic, descriptor, record}^3, each present or dropped, all lengths < 2^32, every cut position",
    "writer faults": "2 records, every index j <= 6 of a failing write call, every short count",
}
STUBS = [
    "struct.unpack('>I', chunk) returns the length the writer stored at that offset (the prefix codec itself is decided in C02-O1)",
    "RecordPacker.descriptors with look-ups by equality instead of hashing in O4 (a symbolic key would be realised by hash())",
    "packer.unpack(chunk) returns the frame's object iff chunk is exactly the frame body, else raises (msgpack is self-delimiting; validated concretely every run)",
    "a record frame whose descriptor frame is absent raises at unpack (decided for the real unpack_obj in obligation O4)",
]
OUTSIDE = ["gzip/bz2/lz4/zstd layers (C readers)", "OS-level write atomicity", "a writer that keeps writing after a *partially* written frame (no checksum in the format)"]
ASSUMPTIONS = ["a failing or short write ends the writing session; a write that fails before storing anything may be followed by further writes (dropped frame)"]

ob = mk("harness.C04", PROPERTY)


class Chunk:
    """abstract byte string: `n` bytes of the stream starting at offset `off`"""

    def __init__(self, off, n):
        self.off = off
        self.n = n

    def __len__(self):
        return self.n


class AbsFile:
    def __init__(self, pos, limit):
        self.pos = pos
        self.limit = limit

    def read(self, n):
        avail = self.limit - self.pos
        take = n if avail >= n else avail
        c = Chunk(self.pos, take)
        self.pos += take
        return c


class FrameError(Exception):
    pass


def read_step():
    import flow.record.stream as S
    from flow.record.stream import RecordStreamReader

    def check(o: int, L: int, limit: int) -> bool:
        """
        post: _
        """
        if not (0 <= o <= limit and 0 <= L < 2**32):
            return True
        real_struct = S.struct

        def unpack_len(fmt, chunk):
            assert fmt == ">I"
            if len(chunk) != 4:
                raise real_struct.error("short")
            assert chunk.off == o
            return (L,)

        class Packer:
            def unpack(self, chunk):
                if chunk.off == o + 4 and len(chunk) == L:
                    return ("OBJ", o)
                raise FrameError("incomplete msgpack value")

        S.struct = types.SimpleNamespace(unpack=unpack_len, pack=real_struct.pack, error=real_struct.error)
        try:
            rd = object.__new__(RecordStreamReader)
            rd.fp = AbsFile(o, limit)
            rd.packer = Packer()
            complete = limit >= o + 4 + L
            try:
                obj = rd.read()
            except (EOFError, FrameError, real_struct.error):
                return not complete
            return complete and obj == ("OBJ", o) and rd.fp.pos == o + 4 + L
        finally:
            S.struct = real_struct

    return check


def iteration(k0: int, k1: int, k2: int, with_selector: bool = False):
    """kinds: 0 = magic, 1 = descriptor, 2 = record"""
    import flow.record.stream as S
    from flow.record import RECORDSTREAM_MAGIC, RecordDescriptor
    from flow.record.stream import RecordStreamReader

    DESC = RecordDescriptor("t/r", [("varint", "n")])
    kinds = [k0, k1, k2]

    def check(L0: int, L1: int, L2: int, p0: bool, p1: bool, p2: bool, limit: int, s0: bool, s1: bool, s2: bool) -> bool:
        """
        post: _
        """
        Ls = [L0, L1, L2]
        present = [p0, p1, p2]
        if not all(0 <= L < 2**32 for L in Ls):
            return True
        starts = []
        pos = 0
        for i in range(3):
            starts.append(pos)
            if present[i]:
                pos = pos + 4 + Ls[i]
        end = pos
        if not (0 <= limit <= end):
            return True
        objs = [RECORDSTREAM_MAGIC if k == 0 else DESC if k == 1 else ("REC", i) for i, k in enumerate(kinds)]

        def frame_at(off):
            for i in range(3):
                if present[i] and off == starts[i]:
                    return i
            return None

        real_struct = S.struct

        def unpack_len(fmt, chunk):
            assert fmt == ">I"
            if len(chunk) != 4:
                raise real_struct.error("short")
            i = frame_at(chunk.off)
            assert i is not None
            return (Ls[i],)

        class Packer:
            def __init__(self):
                self.registered = []

            def unpack(self, chunk):
                i = frame_at(chunk.off - 4)
                if i is not None and len(chunk) == Ls[i]:
                    if kinds[i] == 2 and not self.registered:
                        raise FrameError("no descriptor")  # real unpack_obj: RecordDescriptorNotFound (O4)
                    return objs[i]
                raise FrameError("incomplete")

            def register(self, d):
                self.registered.append(d)

        outcomes = [s0, s1, s2]

        class Sel:
            def match(self, rec):
                return outcomes[rec[1]]

        S.struct = types.SimpleNamespace(unpack=unpack_len, pack=real_struct.pack, error=real_struct.error)
        try:
            rd = object.__new__(RecordStreamReader)
            rd.fp = AbsFile(0, limit)
            rd.packer = Packer()
            rd.closed = False
            rd.selector = Sel() if with_selector else None
            got = []
            raised = False
            try:
                for r in rd:
                    got.append(r)
            except (FrameError, real_struct.error):
                raised = True
        finally:
            S.struct = real_struct
        # reference: walk the frames that are on disk; stop at the first incomplete or undecodable one
        exp = []
        have_desc = False
        clean_end = True
        for i in range(3):
            if not present[i]:
                continue
            if starts[i] == limit:
                break
            if starts[i] + 4 + Ls[i] > limit:
                clean_end = False
                break
            if kinds[i] == 1:
                have_desc = True
            elif kinds[i] == 2:
                if not have_desc:
                    clean_end = False
                    break
                if not with_selector or outcomes[i]:
                    exp.append(objs[i])
        return got == exp and (raised is False or not clean_end)

    return check


def header():
    """readheader: accepts a file that starts with the header frame, refuses a shorter / different one."""
    import flow.record.stream as S
    from flow.record import RECORDSTREAM_MAGIC
    from flow.record.stream import RecordStreamReader

    frame = _struct.pack(">I", 2 + len(RECORDSTREAM_MAGIC)) + bytes([0xC4, len(RECORDSTREAM_MAGIC)]) + RECORDSTREAM_MAGIC

    def check(cut: int, flip: int) -> bool:
        """
        post: _
        """
        if not (0 <= cut <= len(frame) and -1 <= flip < len(frame)):
            return True
        data = bytearray(frame)
        if flip >= 0:
            for j in range(len(frame)):
                if j == flip:
                    data[j] = data[j] ^ 0x01
        data = bytes(data)
        for c in range(len(frame) + 1):
            if c == cut:
                data = data[:c]
        rd = object.__new__(RecordStreamReader)
        rd.fp = io.BytesIO(data)
        try:
            rd.readheader()
            ok = True
        except IOError:
            ok = False
        intact_magic = data.endswith(RECORDSTREAM_MAGIC)
        # a complete, unmodified header is accepted; a header whose magic bytes are damaged or cut is refused
        if cut == len(frame) and flip < 0:
            return ok
        if not intact_magic:
            return not ok
        return True

    return check


def writer_faults(continue_after: bool = False):
    import flow.record.stream as S
    from flow.record.stream import RecordStreamWriter

    class Blob:
        def __init__(self, n, tag):
            self.n = n
            self.tag = tag

        def __len__(self):
            return self.n

    class DiskFull(Exception):
        pass

    class FaultyFile:
        """the j-th write call stores only `short` bytes and raises"""

        def __init__(self, j, short):
            self.j = j
            self.short = short
            self.calls = 0
            self.disk = []

        def write(self, piece):
            n = len(piece)
            if self.calls == self.j:
                s = self.short if self.short < n else n
                self.disk.append((piece, s, n))
                self.calls += 1
                raise DiskFull()
            self.disk.append((piece, n, n))
            self.calls += 1
            return n

        def flush(self):
            pass

        def close(self):
            pass

    def check(L0: int, L1: int, j: int, short: int) -> bool:
        """
        post: _
        """
        if not (0 <= L0 < 2**32 and 0 <= L1 < 2**32 and 0 <= j <= 6 and 0 <= short):
            return True
        real_struct = S.struct

        class Prefix:
            def __init__(self, n):
                self.value = n

            def __len__(self):
                return 4

        S.struct = types.SimpleNamespace(pack=lambda fmt, n: Prefix(n), unpack=real_struct.unpack, error=real_struct.error)
        try:
            fp = FaultyFile(j, short)
            w = object.__new__(RecordStreamWriter)
            w.fp = fp
            w.header_written = False
            blobs = {"HDR": Blob(15, "HDR"), "A": Blob(L0, "A"), "B": Blob(L1, "B")}
            w.packer = types.SimpleNamespace(pack=lambda obj: blobs["HDR"] if not isinstance(obj, str) else blobs[obj])
            done = []
            try:
                for name in ("A", "B"):
                    w.write(name)
                    done.append(name)
            except DiskFull:
                pass
            w.fp = None
        finally:
            S.struct = real_struct
        seq = fp.disk
        kinds = []
        for piece, stored, n in seq:
            kinds.append(("P", piece.value) if isinstance(piece, Prefix) else ("B", piece.tag))
        intended = [("P", 15), ("B", "HDR"), ("P", L0), ("B", "A"), ("P", L1), ("B", "B")]
        if kinds != intended[: len(kinds)]:
            return False
        for i, (piece, stored, n) in enumerate(seq):
            if stored != n and i != len(seq) - 1:
                return False
        complete_bodies = [k[1] for k, (p, st, n) in zip(kinds, seq) if k[0] == "B" and st == n]
        return all(name in complete_bodies for name in done)

    return check


def unknown_identifier():
    """O4: a record (or grouped member) frame whose exact identifier was not announced is refused, never decoded with a
    same-named descriptor."""
    from flow.record import RecordDescriptor
    from flow.record.exceptions import RecordDescriptorNotFound
    from flow.record.packer import RECORD_PACK_EXT_TYPE, RECORD_PACK_TYPE_GROUPEDRECORD, RECORD_PACK_TYPE_RECORD, RecordPacker

    D1 = RecordDescriptor("t/ev", [("varint", "n")])
    h1 = D1.identifier[1]

    class EqDict(dict):
        """the registry with look-ups by equality instead of hashing (hashing a symbolic key would realise it): same contract"""

        def _find(self, key):
            for k in dict.keys(self):
                if k[0] == key[0] and k[1] == key[1]:
                    return k
            return None

        def __contains__(self, key):
            return self._find(key) is not None

        def __getitem__(self, key):
            k = self._find(key)
            if k is None:
                raise KeyError(key)
            return dict.__getitem__(self, k)

        def get(self, key, default=None):
            k = self._find(key)
            return default if k is None else dict.__getitem__(self, k)

    def check(h: int, grouped: bool, known_name: bool) -> bool:
        """
        post: _
        """
        if not (0 <= h < 2**32):
            return True
        same = h == h1
        p = RecordPacker()
        p.register(D1)
        p.descriptors = EqDict(p.descriptors)
        p.unpack = lambda data: data  # tree-level transport: the ext payload is handed over decoded
        name = "t/ev" if known_name else "t/other"
        values = (5, None, None, None, 1)
        if grouped:
            tree = (RECORD_PACK_TYPE_GROUPEDRECORD, ("g", (((name, h), values),)))
        else:
            tree = (RECORD_PACK_TYPE_RECORD, ((name, h), values))
        try:
            rec = p.unpack_obj(RECORD_PACK_EXT_TYPE, tree)
        except (RecordDescriptorNotFound, KeyError):
            return not (known_name and same)
        if not (known_name and same):
            return False
        r = rec.records[0] if grouped else rec
        return r._desc is D1 and r.n == 5

    return check


def model_validation():
    """Concrete validation of the msgpack stand-in: every proper prefix of a real frame body makes RecordPacker.unpack
    raise, and the complete body decodes."""
    from flow.record import RECORDSTREAM_MAGIC, GroupedRecord, RecordDescriptor
    from flow.record.packer import RecordPacker

    D = RecordDescriptor("t/r", [("varint", "n"), ("string", "s"), ("bytes", "b"), ("string[]", "l")])
    E = RecordDescriptor("t/e", [("varint", "big")])
    objs = [RECORDSTREAM_MAGIC, D, D(1, "abc", b"\x00\x01", ["x", "y"]), E(2**70), GroupedRecord("g", [D(2, "", b"", []), E(-5)])]
    p = RecordPacker()
    bad = []
    n = 0
    for o in objs:
        blob = p.pack(o)
        q = RecordPacker()
        q.register(D)
        q.register(E)
        q.unpack(blob)
        for cut in range(len(blob)):
            n += 1
            try:
                q.unpack(blob[:cut])
                bad.append((type(o).__name__, cut))
            except Exception:  # noqa: BLE001
                pass
    return {"ok": not bad, "detail": f"{n} truncations of real frame bodies; decoded although truncated: {bad[:5]}"}


def obligations(tier, seed):
    obs = [ob("side/msgpack-prefix-free", "side", "model_validation", {}), ob("side/gzip-cuts", "side", "gzip_sweep", {"step": 7 if tier == "quick" else 1}, timeout=600)]
    to = 40 if tier == "quick" else 180
    obs.append(ob("O1-read-step", "xh", "read_step", {}, timeout=to, bounds="all o, L < 2^32, limit"))
    vectors = [(a, b, c) for a in (0, 1, 2) for b in (0, 1, 2) for c in (0, 1, 2)]
    if tier == "quick":
        vectors = [v for v in vectors if v[0] != 2 or v == (2, 1, 2)][:]
        vectors = [(0, 1, 2), (0, 2, 2), (1, 2, 2), (0, 1, 1), (1, 2, 1), (2, 1, 2), (0, 0, 2), (1, 1, 2), (1, 2, 0), (0, 2, 1)]
    for v in vectors:
        obs.append(ob(f"O2-iter/{v[0]}{v[1]}{v[2]}", "xh", "iteration", {"k0": v[0], "k1": v[1], "k2": v[2]}, timeout=to * 2, group="O2-iter", bounds="lengths < 2^32, every cut, frames present/dropped"))
    for v in ((1, 2, 2), (0, 1, 2)):
        obs.append(ob(f"O2-iter-selector/{v[0]}{v[1]}{v[2]}", "xh", "iteration", {"k0": v[0], "k1": v[1], "k2": v[2], "with_selector": True}, timeout=to * 3, group="O2-iter", bounds="as O2 with an uninterpreted selector"))
    obs.append(ob("O2-header", "xh", "header", {}, timeout=to, bounds="every cut of the header frame x every single-bit flip position"))
    obs.append(ob("O3-writer-faults", "xh", "writer_faults", {}, timeout=to, bounds="2 records, j <= 6, all short counts, all body lengths < 2^32"))
    obs.append(ob("O4-unknown-identifier", "xh", "unknown_identifier", {}, timeout=15, bounds="all 2^32 hash values of the identifier x plain or grouped member x known or unknown type name (registry look-ups by equality)"))
    return obs


# ------------------------------------------------------------------------------------------------ replay (real streams)
def _frames(data):
    """Independent frame walker: [(start, end)] of complete frames."""
    out = []
    pos = 0
    while pos + 4 <= len(data):
        (n,) = _struct.unpack(">I", data[pos : pos + 4])
        if pos + 4 + n > len(data):
            break
        out.append((pos, pos + 4 + n))
        pos += 4 + n
    return out, pos


def _streams():
    from flow.record import GroupedRecord, RecordDescriptor
    from flow.record.stream import RecordStreamWriter

    A = RecordDescriptor("test/a", [("string", "name"), ("varint", "number"), ("bytes", "blob")])
    B = RecordDescriptor("test/a", [("string", "name"), ("varint", "number"), ("string", "comment")])
    C = RecordDescriptor("test/c", [("varint", "big")])
    seqs = {
        "same-size": [A("name-%04d" % i, 1000 + i, b"\xa6number\x92" * 3) for i in range(6)],
        "evolving": [A("one", 1, b"x"), B("two", 2, "second"), A("three", 3, b"y"), B("four", 4, "fourth"), C(2**70)],
        "grouped": [A("g", 1, b""), GroupedRecord("grp", [A("in", 2, b"z"), C(-1)]), C(5)],
    }
    out = {}
    for name, recs in seqs.items():
        buf = io.BytesIO()
        w = RecordStreamWriter(buf)
        marks = []
        for r in recs:
            w.write(r)
            marks.append(buf.tell())
        w.flush()
        data = buf.getvalue()
        w.fp = None
        out[name] = (recs, data, marks)
    return out


def _obs(r):
    return (r._desc.name, r._desc.get_field_tuples(), repr(r._pack()[1][:-3]))


def _read_all(data):
    from flow.record.stream import RecordStreamReader

    got = []
    err = None
    try:
        for r in RecordStreamReader(io.BytesIO(data)):
            got.append(_obs(r))
    except Exception as e:  # noqa: BLE001
        err = type(e).__name__
    return got, err


def real_sweep():
    """Every cut of three real streams; every failing/short write index. Returns a description of the first violation."""
    from flow.record.stream import RecordStreamWriter

    for name, (recs, data, marks) in _streams().items():
        expected_all = [_obs(r) for r in recs]
        boundaries = {e for _, e in _frames(data)[0]} | {0}
        for cut in range(len(data) + 1):
            got, err = _read_all(data[:cut])
            n_complete = len([m for m in marks if m <= cut])
            exp = expected_all[:n_complete]
            if cut < 19:
                if got:
                    return {"stream": name, "cut": cut, "what": f"records {got} from a file shorter than the header"}
                continue
            if got != exp:
                return {"stream": name, "cut": cut, "what": f"cut at byte {cut}: expected {len(exp)} records, reader yielded {len(got)}: first difference {[(g, e) for g, e in zip(got + [None], exp + [None]) if g != e][:1]}"}
            if cut in boundaries and err is not None:
                return {"stream": name, "cut": cut, "what": f"cut at frame boundary {cut} raised {err}"}
        v = _fault_sweep(name, recs)
        if v:
            return v
    return None


def _write_with_fault(recs, k, short, carry_on):
    """Write recs through a file object whose k-th write call stores only `short` bytes (None = all but one) and raises."""
    from flow.record.stream import RecordStreamWriter

    buf = io.BytesIO()
    calls = {"n": 0}

    class F:
        def write(self, b):
            i = calls["n"]
            calls["n"] += 1
            if i == k:
                buf.write(b[: (max(len(b) - 1, 0) if short is None else short)])
                raise OSError(28, "No space left on device")
            return buf.write(b)

        def flush(self):
            pass

        def close(self):
            pass

    w = RecordStreamWriter(F())
    completed = []
    for r in recs:
        try:
            w.write(r)
            completed.append(_obs(r))
        except OSError:
            if not carry_on:
                break
    w.fp = None
    return buf.getvalue(), completed, calls["n"]


def _fault_sweep(name, recs):
    written = [_obs(r) for r in recs]
    _, _, total = _write_with_fault(recs, -1, 0, False)
    for k in range(total):
        for short in (0, 1, None):
            data, completed, _ = _write_with_fault(recs, k, short, False)
            got, err = _read_all(data)
            if len(data) >= 19 and got != completed:
                return {"stream": name, "k": k, "what": f"write call {k} of {total} failed (stored {short}): completed {len(completed)} records, reader yielded {len(got)}: {[(g, c) for g, c in zip(got + [None], completed + [None]) if g != c][:1]}"}
        if k % 2 == 0:
            # a length-prefix write that fails before storing anything drops the whole frame; the application carries on
            data, completed, _ = _write_with_fault(recs, k, 0, True)
            got, err = _read_all(data)
            it = iter(written)
            for g in got:
                if not any(g == w_ for w_ in it):
                    return {"stream": name, "k": k, "what": f"write call {k} of {total} failed and the application carried on: reader yielded {g}, which is not one of the records written (in order)"}
    return None


def gzip_sweep(step: int = 5):
    """A gzip-compressed stream cut at every `step`-th byte, read by path and from a file object: the reader yields exactly the
    records whose frames are complete in the plaintext an independent zlib decompressor recovers from the same bytes (concrete
    side condition: the decompressors are C code; the raw-stream reader applied to the recovered plaintext is the reference)."""
    import random
    import zlib

    from flow.record import RecordDescriptor, RecordReader, RecordWriter
    D = RecordDescriptor("t/gz", [("string", "s"), ("varint", "n")])
    rnd = random.Random(1)
    n_cuts = 0
    with tempdir() as d:
        p = os.path.join(d, "x.records.gz")
        w = RecordWriter(p)
        for i in range(150):
            w.write(D("".join(rnd.choice("abcdefghijklmnopqrstuvwxyz0123456789") for _ in range(rnd.randint(20, 200))), i))
        w.close()
        raw = open(p, "rb").read()
        for cut in list(range(0, len(raw), step)) + [len(raw) - 1, len(raw)]:
            dz = zlib.decompressobj(wbits=31)
            try:
                plain = dz.decompress(raw[:cut])
            except zlib.error:
                plain = b""
            exp = [o for o in _read_all(plain)[0]]
            q = os.path.join(d, "c.records.gz")
            open(q, "wb").write(raw[:cut])
            for how in ("path", "fileobj"):
                got = []
                try:
                    rd = RecordReader(q) if how == "path" else RecordReader(fileobj=open(q, "rb"))
                    for r in rd:
                        got.append(_obs(r))
                except Exception:  # noqa: BLE001
                    pass
                n_cuts += 1
                if got != exp:
                    return {"ok": False, "detail": f"gzip stream of 150 records cut at byte {cut} of {len(raw)} (read by {how}): reader yields {len(got)} records, {len(exp)} complete frames are recoverable", "cex": {"cut": cut, "how": how}}
    return {"ok": True, "detail": f"{n_cuts} reads of truncated gzip streams"}


def replay(res):
    if "gzip" in res["id"]:
        out = gzip_sweep(3)
        return {"reproduced": not out["ok"], "key": "C04/gzip-cuts", "what": out["detail"], "input": out.get("cex")}
    if res["kind"] == "side" and res["verdict"] == "side-fail":
        out = model_validation()
        return {"reproduced": not out["ok"], "key": "C04/model", "what": "truncated frame body decodes: " + out["detail"], "input": {}}
    v = real_sweep()
    if v is None:
        return {"reproduced": False, "what": "real streams cut at every byte and with every failing write read back as intact prefixes"}
    return {"reproduced": True, "key": f"C04/{res['id'].split('/')[1]}", "what": v["what"] + f" (stream '{v['stream']}')", "input": v}
