"""C02 - written bytes conform to the frozen RecordStream wire format (repo-side layers).

A reference model of the format lives in spec/wire.py (independent of the repo). The repo side is compared against it
symbolically: length prefix and varint payload and descriptor identifier as SMT queries generated from the AST; the trees
handed to / received from msgpack through the tree-level transport with symbolic carrier values."""
import datetime as _dt
import io
from typing import Optional

from harness import kernels
from harness.common import cex_args, mk
from spec import wire

PROPERTY = "C02"
FUNCTIONS = [
    "flow.record.stream:RecordStreamWriter.write",
    "flow.record.stream:RecordStreamWriter.writeheader",
    "flow.record.stream:RecordStreamReader.read",
    "flow.record.packer:RecordPacker.pack_obj",
    "flow.record.packer:RecordPacker.unpack_obj",
    "flow.record.base:RecordDescriptor.calc_descriptor_hash",
    "flow.record.base:RecordDescriptor._pack",
    "flow.record.base:Record._pack",
]
BOUNDS = {
    "length prefix": "all body lengths < 2^32",
    "varint payload": "bit lengths 0..136 (quick: 56..72 here, the full range in C01) / 0..520 (thorough)",
    "identifier": "name and <= 3 (type, name) pairs of unbounded strings; 32 arbitrary digest bytes",
    "sequences": "K = 3 (quick) / 4 (thorough) records in one stream over 17 record kinds (C03's two universes), decoded by the reference codec",
    "trees": "carrier values all ints in msgpack's native range / None, n <= 3 declared fields, 0..3 extra reserved values, version present or absent",
}
STUBS = ["tree-level msgpack (vf/models/msgtree.py)", "sha256 is uninterpreted in the identifier query (32 arbitrary digest bytes)"]
OUTSIDE = ["msgpack's byte-level encoding (trusted to follow the msgpack spec)", "a golden corpus of archived streams (example testing, not produced by this family)"]
ASSUMPTIONS = ["spec/wire.py is the published format"]

ob = mk("harness.C02", PROPERTY)


def length_prefix():
    return kernels.length_prefix()


def varint_payload(min_bits: int, max_bits: int, width: int):
    return kernels.varint_codec(max_bits=max_bits, width=width, min_bits=min_bits, spec=True)


def varint_decode(max_bits: int, width: int):
    return kernels.varint_spec_decode(max_bits=max_bits, width=width)


def identifier(nfields: int):
    return kernels.descriptor_hash(nfields)


# ------------------------------------------------------------------------------------------------ trees (XH)
def _ref_record_tree(desc, values):
    from vf.models.msgtree import Ext

    return Ext(wire.EXT, (wire.T_RECORD, ((desc.name, wire.descriptor_hash(desc.name, desc.get_field_tuples())), tuple(values))))


def tree_record(nfields: int):
    """pack_obj(Record) hands msgpack exactly the reference tree; the reference tree is decoded to the same slot values."""
    from flow.record import RecordDescriptor
    from flow.record.packer import RecordPacker
    from vf.models import msgtree

    D = RecordDescriptor("t/tree", [("record", f"f{i}") for i in range(nfields)])

    import flow.record.base as B

    def check(a: int, b: Optional[int], c: int, has_src: bool, ig_field: bool, ig_gen: bool) -> bool:
        """
        post: _
        """
        if not all(-(2**63) <= q < 2**64 for q in (a, c)) or (b is not None and not -(2**63) <= b < 2**64):
            return True
        vals = [a, b, c][:nfields]
        gen = _dt.datetime(2020, 1, 2, 3, 4, 5, 6, tzinfo=_dt.timezone.utc)
        rec = D(*vals, _source="S" if has_src else None, _generated=gen)
        # the comparison configuration (fields ignored by == / hash) must not reach the wire
        ign = set()
        if ig_field:
            ign.add("f0")
        if ig_gen:
            ign.add("_generated")
        with msgtree.installed() as P, B.ignore_fields_for_comparison(ign):
            pk = RecordPacker()
            got = pk.pack(rec)
            gen_tree = msgtree.Ext(wire.EXT, (wire.T_DATETIME, (2020, 1, 2, 3, 4, 5, 6)))
            want = _ref_record_tree(D, vals + ["S" if has_src else None, None, gen_tree, 1])
            if got != want:
                return False
            rd = RecordPacker()
            rd.register(D)
            back = rd.unpack(want)
        ok = all(((v is None and getattr(back, f"f{i}") is None) or (v is not None and getattr(back, f"f{i}") == v)) for i, v in enumerate(vals))
        return ok and back._source == rec._source and back._classification is None and back._generated == gen and back._version == 1 and back._desc is D

    return check


def tree_other(kind: str):
    """descriptor / grouped record / big integer / datetime trees equal the reference encoder's trees."""
    from flow.record import GroupedRecord, RecordDescriptor
    from flow.record.packer import RecordPacker
    from vf.models import msgtree
    from vf.models.msgtree import Ext

    A = RecordDescriptor("t/a", [("record", "x")])
    B = RecordDescriptor("t/b", [("record", "y"), ("record", "z")])
    gen = _dt.datetime(2020, 1, 2, 3, 4, 5, 6, tzinfo=_dt.timezone.utc)
    gen_tree = Ext(wire.EXT, (wire.T_DATETIME, (2020, 1, 2, 3, 4, 5, 6)))
    zones = [None, _dt.timezone.utc, _dt.timezone(_dt.timedelta(hours=2)), _dt.timezone(_dt.timedelta(hours=-5, minutes=-30))]

    def check(a: int, b: Optional[int], tz: int, neg: bool) -> bool:
        """
        post: _
        """
        if not (-(2**63) <= a < 2**64) or (b is not None and not -(2**63) <= b < 2**64) or not (0 <= tz < 4):
            return True
        with msgtree.installed():
            pk = RecordPacker()
            if kind == "descriptor":
                got = pk.pack(B)
                want = Ext(wire.EXT, (wire.T_DESCRIPTOR, ("t/b", (("record", "y"), ("record", "z")))))
                back = RecordPacker().unpack(want)
                return got == want and back.name == "t/b" and back.get_field_tuples() == (("record", "y"), ("record", "z"))
            if kind == "grouped":
                g = GroupedRecord("grp", [A(a, _generated=gen), B(b, a, _generated=gen)])
                got = pk.pack(g)
                m1 = (("t/a", wire.descriptor_hash("t/a", A.get_field_tuples())), (a, None, None, gen_tree, 1))
                m2 = (("t/b", wire.descriptor_hash("t/b", B.get_field_tuples())), (b, a, None, None, gen_tree, 1))
                want = Ext(wire.EXT, (wire.T_GROUPED, ("grp", (m1, m2))))
                rd = RecordPacker()
                rd.register(A)
                rd.register(B)
                back = rd.unpack(want)
                ok = back.name == "grp" and len(back.records) == 2 and back.records[0].x == a and back.records[1].z == a
                return got == want and ok
            # big integer: sub-type and payload shape for a concrete representative on either side of the native range
            v = -(2**64) - 5 if neg else 2**64 + 5
            got = pk.pack(v)
            want = Ext(wire.EXT, (wire.T_VARINT, (neg, (2**64 + 5).to_bytes(9, "big"))))
            return got == want and RecordPacker().unpack(want) == v

    return check


def tree_datetime():
    """Concrete (no symbolic dimension; timestamps are C13): UTC / naive -> 7 integers, other offsets -> one ISO string."""
    from flow.record.packer import RecordPacker
    from vf.models import msgtree
    from vf.models.msgtree import Ext

    zones = [None, _dt.timezone.utc, _dt.timezone(_dt.timedelta(hours=2)), _dt.timezone(_dt.timedelta(hours=-5, minutes=-30))]
    bad = []
    with msgtree.installed():
        for z in zones:
            dt = _dt.datetime(2021, 12, 31, 23, 59, 58, 999999, tzinfo=z)
            got = RecordPacker().pack(dt)
            if z is None or z == _dt.timezone.utc:
                want = Ext(wire.EXT, (wire.T_DATETIME, (2021, 12, 31, 23, 59, 58, 999999)))
            else:
                want = Ext(wire.EXT, (wire.T_DATETIME, (dt.isoformat(),)))
            back = RecordPacker().unpack(want)
            exp = dt if z is not None else dt.replace(tzinfo=_dt.timezone.utc)
            if not (got == want and back == exp and back.utcoffset() == exp.utcoffset()):
                bad.append((str(z), repr(got), repr(want)))
    return {"ok": not bad, "detail": f"datetime trees differ from the format: {bad}" if bad else "4 tzinfo kinds"}


def compat(nfields: int):
    """Conforming records with e extra reserved values before the version, or without a version field, decode to the
    declared fields and the three standard metadata values."""
    from flow.record import RecordDescriptor
    from flow.record.packer import RecordPacker
    from vf.models import msgtree
    import warnings

    D = RecordDescriptor("t/compat", [("record", f"f{i}") for i in range(nfields)])
    gen = _dt.datetime(2020, 1, 2, 3, 4, 5, 6, tzinfo=_dt.timezone.utc)

    def check(a: int, b: Optional[int], c: int, e: int, versioned: bool, has_src: bool, has_cls: bool, x0: int, xkind: int, ver: int) -> bool:
        """
        post: _
        """
        if not (0 <= e <= 3 and 0 <= xkind <= 2 and 1 <= ver <= 3):
            return True
        if not versioned and e != 0:
            return True  # extra reserved fields imply a version field (format rule)
        vals = [a, b, c][:nfields]
        extra_first = x0 if xkind == 0 else ("tlp:amber" if xkind == 1 else None)
        extras = []
        if e >= 1:
            extras.append(extra_first)
        if e >= 2:
            extras.append("second")
        if e >= 3:
            extras.append(3.5)
        src = "S" if has_src else None
        cls = "C" if has_cls else None
        # a later release may write another version number (the reader warns and goes on) together with further reserved values
        values = tuple(vals + [src, cls, gen] + extras + ([ver] if versioned else []))
        tree = msgtree.Ext(wire.EXT, (wire.T_RECORD, ((D.name, wire.descriptor_hash(D.name, D.get_field_tuples())), values)))
        with msgtree.installed(), warnings.catch_warnings():
            warnings.simplefilter("ignore")
            rd = RecordPacker()
            rd.register(D)
            back = rd.unpack(tree)
        ok = all(((v is None and getattr(back, f"f{i}") is None) or (v is not None and getattr(back, f"f{i}") == v)) for i, v in enumerate(vals))
        return ok and back._source == src and back._classification == cls and back._generated == gen and back._version == 1

    return check


# ------------------------------------------------------------------------------------------------ side conditions
def constants():
    import flow.record.packer as P
    from flow.record import RECORDSTREAM_MAGIC
    from flow.record.base import RESERVED_FIELDS

    probs = []
    pairs = [("RECORD_PACK_EXT_TYPE", wire.EXT), ("RECORD_PACK_TYPE_RECORD", wire.T_RECORD), ("RECORD_PACK_TYPE_DESCRIPTOR", wire.T_DESCRIPTOR), ("RECORD_PACK_TYPE_DATETIME", wire.T_DATETIME),
             ("RECORD_PACK_TYPE_VARINT", wire.T_VARINT), ("RECORD_PACK_TYPE_GROUPEDRECORD", wire.T_GROUPED)]
    for n, v in pairs:
        if getattr(P, n, None) != v:
            probs.append(f"{n} = {getattr(P, n, None)!r}, format says {v}")
    if RECORDSTREAM_MAGIC != wire.MAGIC:
        probs.append("magic differs")
    if tuple(RESERVED_FIELDS) != wire.RESERVED:
        probs.append(f"reserved field order {tuple(RESERVED_FIELDS)}")
    if P.packb.keywords.get("use_bin_type") is not True or P.packb.keywords.get("unicode_errors") != "surrogateescape":
        probs.append(f"packb keyword arguments {P.packb.keywords}")
    if P.unpackb.keywords.get("raw") is not False or P.unpackb.keywords.get("unicode_errors") != "surrogateescape":
        probs.append(f"unpackb keyword arguments {P.unpackb.keywords}")
    return {"ok": not probs, "detail": "; ".join(probs) or "ext type, sub-types, magic, reserved order and msgpack options equal the format's"}


def _battery():
    from flow.record import GroupedRecord, RecordDescriptor

    A = RecordDescriptor("test/item", [("string", "name"), ("varint", "n"), ("bytes", "b")])
    A2 = RecordDescriptor("test/item", [("string", "name"), ("varint", "n"), ("string", "extra")])
    H = RecordDescriptor("test/holder", [("record", "inner"), ("record[]", "many")])
    T = RecordDescriptor("test/time", [("datetime", "ts"), ("float", "f"), ("boolean", "t")])
    utc = _dt.timezone.utc
    tz = _dt.timezone(_dt.timedelta(hours=5, minutes=30))
    return [
        A("one", 1, b"\x00\xff"),
        A("big", 2**70, None),
        A("neg", -(2**64) - 1, b""),
        GroupedRecord("grp", [A2("two", 2, "redefined inside a group"), T(_dt.datetime(2020, 1, 1, tzinfo=utc), 1.5, True)]),
        A2("three", 2**63, "x"),
        T(_dt.datetime(1999, 12, 31, 23, 59, 59, 5, tzinfo=tz), float("-inf"), False),
        H(A("in", 3, b"z"), [A2("m1", 4, "y"), A("m2", 2**64, b"")]),
        A("\udcffé", 0, b"a"),
    ]


def _plain(v):
    """value as the reference decoder reports it"""
    import pathlib

    from flow.record import Record
    from flow.record import fieldtypes as FT

    if isinstance(v, Record):
        return ("record", v._desc.name, v._desc.identifier[1], tuple(_plain(getattr(v, k)) for k in v.__slots__))
    if isinstance(v, _dt.datetime):
        if v.tzinfo == _dt.timezone.utc:
            return ("datetime-utc", (v.year, v.month, v.day, v.hour, v.minute, v.second, v.microsecond))
        return ("datetime-iso", v.isoformat())
    if isinstance(v, FT.boolean):
        return bool(v)
    if isinstance(v, list):
        return tuple(_plain(x) for x in v)
    if isinstance(v, bool) or v is None:
        return v
    if isinstance(v, int):
        return int(v)
    if isinstance(v, float):
        return float(v)
    if isinstance(v, bytes):
        return bytes(v)
    if isinstance(v, str):
        return str(v)
    return v


def end_to_end(ignore: bool = False):
    """(with `ignore`: the stream is written while a non-empty ignored-fields-for-comparison configuration is active)
    Implementation-encoded bytes are decoded by the independent reference decoder to the records written (and every
    record is preceded by its descriptor with the published hash); reference-encoded bytes are decoded by the implementation."""
    from flow.record import GroupedRecord
    from flow.record.stream import RecordStreamReader, RecordStreamWriter

    import flow.record.base as B

    recs = _battery()
    ign = set()
    if ignore:
        ign = {"_generated", "_source"}
        for r in recs:
            fts = r._desc.get_field_tuples() if not isinstance(r, GroupedRecord) else ()
            if fts:
                ign.add(fts[0][1])
    buf = io.BytesIO()
    with B.ignore_fields_for_comparison(ign):
        w = RecordStreamWriter(buf)
        for r in recs:
            w.write(r)
        w.flush()
    data = buf.getvalue()
    w.fp = None
    try:
        frames = wire.decode_stream(data)
        wire.check_conformance(frames)
    except Exception as e:  # noqa: BLE001
        return {"ok": False, "detail": f"reference decoder rejects the written stream: {type(e).__name__}: {e}", "cex": {"direction": "impl->ref"}}
    got = [f for f in frames if f[0] != "descriptor"]
    want = []
    for r in recs:
        if isinstance(r, GroupedRecord):
            want.append(("grouped", r.name, tuple(_plain(m) for m in r.records)))
        else:
            want.append(_plain(r))
    if got != want:
        for g, x in zip(got, want):
            if g != x:
                return {"ok": False, "detail": f"reference decoder reads {g!r}, written {x!r}"[:500], "cex": {"direction": "impl->ref"}}
        return {"ok": False, "detail": f"{len(got)} records decoded by the reference, {len(want)} written", "cex": {"direction": "impl->ref"}}
    # converse: the reference encoder's bytes, with extra trailing metadata and without version
    fields = (("string", "label"), ("varint", "n"))
    legacy = (("wstring", "label"), ("varint", "n"))
    gen = _dt.datetime(2020, 5, 6, 7, 8, 9, 10, tzinfo=_dt.timezone.utc)
    objs = [
        wire.Desc("ref/rec", fields),
        wire.Rec("ref/rec", fields, ("plain", 1, "src", "cls", gen, 1)),
        wire.Rec("ref/rec", fields, ("extras", 2**80, None, None, gen, "tlp:amber", gen, 1)),
        wire.Rec("ref/rec", fields, ("int-extra", -(2**70), None, None, gen, 1337, 1)),
        wire.Rec("ref/rec", fields, ("unversioned", 4, "s", None, gen)),
        wire.Rec("ref/rec", fields, ("later-version", 6, None, "c", gen, 2)),
        wire.Rec("ref/rec", fields, ("later-version-extras", 7, "s7", None, gen, "tlp:red", 99, 3)),
        wire.Grouped("g", [wire.Rec("ref/rec", fields, ("member", 5, None, None, gen, 1))]),
        # a stream archived from an earlier release: type names are part of the identifier as they were written (aliases included)
        wire.Desc("ref/legacy", legacy),
        wire.Rec("ref/legacy", legacy, ("wide", 8, None, None, gen, 1)),
    ]
    import warnings

    with warnings.catch_warnings():
        warnings.simplefilter("ignore")
        try:
            back = list(RecordStreamReader(io.BytesIO(wire.encode_stream(objs))))
        except Exception as e:  # noqa: BLE001
            return {"ok": False, "detail": f"implementation rejects a conforming stream: {type(e).__name__}: {e}", "cex": {"direction": "ref->impl"}}
    exp = [("plain", 1, "src", "cls"), ("extras", 2**80, None, None), ("int-extra", -(2**70), None, None), ("unversioned", 4, "s", None), ("later-version", 6, None, "c"), ("later-version-extras", 7, "s7", None),
           ("member", 5, None, None), ("wide", 8, None, None)]
    seen = [(r.label, r.n, r._source, r._classification) for r in back]
    ok = seen == exp and all(r._generated == gen and r._version == 1 for r in back) and tuple(back[-1]._desc.get_field_tuples()) == legacy
    return {"ok": ok, "detail": f"{len(recs)} records impl->reference, {len(exp)} records reference->impl" if ok else f"implementation decodes the reference stream to {seen}", "cex": {"direction": "ref->impl"}}


def _want(rec, created_as=None):
    from flow.record import GroupedRecord

    if isinstance(rec, GroupedRecord):
        return ("grouped", rec.name, tuple(_want(m) for m in rec.records))
    p = _plain(rec)
    if created_as is not None:
        p = (p[0], created_as) + tuple(p[2:])
    return p


def seq_problem(kinds):
    """One stream holding the given sequence of record kinds (C03's two universes): the independent reference decoder must accept it
    (every identifier announced by an earlier descriptor frame with the published hash) and decode exactly the records written."""
    from flow.record.stream import RecordStreamWriter
    from harness import C03

    U = [(f, None, False) for f in C03.universe()] + [(f, C03.CREATED_AS.get(("aux", i)), ("aux", i) in C03.FAILING) for i, f in enumerate(C03.universe("aux"))]
    buf = io.BytesIO()
    w = RecordStreamWriter(buf)
    want = []
    for i in kinds:
        make, created_as, failing = U[i]
        rec = make()
        if failing:
            try:
                w.write(rec)
            except Exception:  # noqa: BLE001
                continue
            return "writing a record with an unserialisable value did not raise"
        w.write(rec)
        want.append(_want(rec, created_as))
    w.flush()
    data = buf.getvalue()
    w.fp = None
    try:
        frames = wire.decode_stream(data)
        wire.check_conformance(frames)
    except Exception as e:  # noqa: BLE001
        return f"reference decoder rejects the written stream: {type(e).__name__}: {e}"
    got = [f for f in frames if f[0] != "descriptor"]
    if got != want:
        for g, x in zip(got, want):
            if g != x:
                return f"reference decoder reads {g!r}, written {x!r}"[:500]
        return f"{len(got)} records decoded by the reference, {len(want)} written"
    return None


NSEQ = 17


def seq_ref(k: int, first: int):
    from crosshair.tracers import NoTracing

    def check(c1: int, c2: int, c3: int) -> bool:
        """
        post: _
        """
        codes = [c1, c2, c3][: k - 1]
        if not all(0 <= c < NSEQ for c in codes):
            return True
        kinds = [first]
        for c in codes:
            for j in range(NSEQ):
                if c == j:
                    kinds.append(j)
        with NoTracing():
            return seq_problem(kinds) is None

    return check


def obligations(tier, seed):
    obs = [ob("side/constants", "side", "constants", {}), ob("side/end-to-end-bytes", "side", "end_to_end", {}), ob("side/end-to-end-bytes-ignore-config", "side", "end_to_end", {"ignore": True})]
    obs.append(ob("O1-length-prefix", "smt", "length_prefix", {}, timeout=60, bounds="all n < 2^32"))
    if tier == "quick":
        obs.append(ob("O2-varint-payload/bits56-72", "smt", "varint_payload", {"min_bits": 56, "max_bits": 72, "width": 160}, timeout=120, group="O2-varint", bounds="bit lengths 56..72 (hand-over from msgpack's native ints)"))
        obs.append(ob("O2-varint-spec-decode", "smt", "varint_decode", {"max_bits": 136, "width": 160}, timeout=120, group="O2-varint"))
    else:
        lo = 0
        while lo <= 520:
            hi = min(lo + 19, 520)
            obs.append(ob(f"O2-varint-payload/bits{lo}-{hi}", "smt", "varint_payload", {"min_bits": lo, "max_bits": hi, "width": 544}, timeout=900, group="O2-varint", bounds=f"bit lengths {lo}..{hi}"))
            lo = hi + 1
        obs.append(ob("O2-varint-spec-decode", "smt", "varint_decode", {"max_bits": 520, "width": 544}, timeout=300, group="O2-varint"))
    for n in (0, 1, 2, 3):
        obs.append(ob(f"O3-identifier/{n}fields", "smt", "identifier", {"nfields": n}, timeout=120, group="O3-identifier", bounds="unbounded strings"))
    to = 40 if tier == "quick" else 180
    for n in (0, 1, 3):
        obs.append(ob(f"O4-tree/record{n}", "xh", "tree_record", {"nfields": n}, timeout=to, group="O4-tree"))
    obs.append(ob("side/tree-datetime", "side", "tree_datetime", {}))
    for k in ("descriptor", "grouped", "bigint"):
        obs.append(ob(f"O4-tree/{k}", "xh", "tree_other", {"kind": k}, timeout=to, group="O4-tree"))
    k = 3 if tier == "quick" else 4
    for first in range(NSEQ):
        obs.append(ob(f"O6-sequences/K{k}/first{first}", "xh", "seq_ref", {"k": k, "first": first}, timeout=to * 2, group="O6-sequences", bounds=f"{k} records x {NSEQ} kinds in one stream, decoded by the reference codec"))
    for n in (0, 2, 3):
        obs.append(ob(f"O5-compat/{n}fields", "xh", "compat", {"nfields": n}, timeout=to * 2, group="O5-compat", bounds="0..3 extra reserved values (int / text / None first), version field absent or 1..3"))
    return obs


def replay(res):
    gid = res["id"]
    if "O6-sequences" in gid:
        from harness.common import cex_args

        v = cex_args(res, ["c1", "c2", "c3"])
        kinds = [res["args"]["first"]] + [c for c in [v.get("c1"), v.get("c2"), v.get("c3")][: res["args"]["k"] - 1] if isinstance(c, int) and 0 <= c < NSEQ]
        prob = seq_problem(kinds)
        return {"reproduced": prob is not None, "key": f"C02/sequence/{kinds}", "what": f"stream holding the record kinds {kinds}: {prob}"[:700], "input": {"kinds": kinds}}
    if "side/constants" in gid:
        out = constants()
        return {"reproduced": not out["ok"], "key": "C02/constants", "what": out["detail"], "input": {}}
    if "side/tree-datetime" in gid:
        out = tree_datetime()
        return {"reproduced": not out["ok"], "key": "C02/tree-datetime", "what": out["detail"], "input": {}}
    out = end_to_end()
    if not out["ok"]:
        return {"reproduced": True, "key": f"C02/bytes/{out['cex']['direction']}", "what": out["detail"], "input": out["cex"]}
    out = end_to_end(ignore=True)
    if not out["ok"]:
        return {"reproduced": True, "key": f"C02/bytes-under-ignore-config/{out['cex']['direction']}", "what": "written while fields are ignored for comparison: " + out["detail"], "input": out["cex"]}
    # targeted replays for solver witnesses
    m = (res.get("cex") or {}).get("kw") or {}
    if "varint" in gid or "identifier" in gid or "length-prefix" in gid:
        import struct

        from flow.record import RecordDescriptor
        from flow.record.stream import RecordStreamWriter

        D = RecordDescriptor("ref/big", [("varint", "n")])
        vals = [m["v"]] if isinstance(m.get("v"), int) else []
        vals += [2**64, -(2**63) - 1, 2**136 - 1, -(2**200)]
        buf = io.BytesIO()
        w = RecordStreamWriter(buf)
        for v in vals:
            w.write(D(v))
        w.flush()
        data = buf.getvalue()
        w.fp = None
        try:
            frames = wire.decode_stream(data)
            known = wire.check_conformance(frames)
            got = [f[3][0] for f in frames if f[0] == "record"]
        except Exception as e:  # noqa: BLE001
            return {"reproduced": True, "key": f"C02/{gid.split('/')[1]}", "what": f"reference decoder rejects a stream of big integers: {type(e).__name__}: {e}", "input": {"values": [str(v) for v in vals]}}
        if got != vals:
            return {"reproduced": True, "key": f"C02/{gid.split('/')[1]}", "what": f"reference decoder reads {got[:2]}... for {vals[:2]}...", "input": {"values": [str(v) for v in vals]}}
    if "O5-compat" in gid or "O4-tree" in gid:
        pass  # covered by end_to_end (extras / unversioned / grouped / datetime)
    return {"reproduced": False, "what": "implementation and reference codec agree on the byte-level battery in both directions"}
