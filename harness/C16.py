"""C16 - rdump writes the specified slice of the filtered input (pipeline with I/O stubbed).

The real ``rdump.main`` and the real ``record_stream`` run under CrossHair. The driver enumerates the structure (which
sources fail where, which options are set); inside an obligation ``--skip``, ``--count``, the selector's outcome vector and
the carrier values are symbolic. Reference pipeline: ``ref_pipeline`` below, written from the statement.
"""
import argparse
import contextlib
import datetime as _dt
import io
import itertools
import logging
import os
import random
import sys
import types

from crosshair.tracers import NoTracing

from harness.common import OutcomeSelector, cex_args, mk, tempdir

PROPERTY = "C16"
FUNCTIONS = [
    "flow.record.tools.rdump:main",
    "flow.record.stream:record_stream",
    "flow.record.stream:RecordFieldRewriter.rewrite",
    "flow.record.stream:RecordFieldRewriter.record_descriptor_for_fields",
    "flow.record.base:iter_timestamped_records",
    "flow.record.selector:make_selector",
]
BOUNDS = {
    "slice": "skip, count in [0, N+2] symbolic (count 0 = unlimited), N <= 4 records per run (6 thorough)",
    "selector": "uninterpreted predicate: every outcome vector in {0,1}^N; plus real selectors (both engines) over all integer field values",
    "faults": "every placement of {ends cleanly with 0/2 records, IOError after 0/1 records, other exception after 0/1 records, cannot be opened (IOError / other)} over 2 sources, 3 sources seeded (quick) / all (thorough)",
    "options": "-F in {none, a, c+a, b+zz, d} x -X in {none, a, b+c} x --record-source x --record-classification x --multi-timestamp, over a mixed input with two descriptors of the same name",
}
STUBS = [
    "RecordReader: fake that yields the source's prepared records through the selector and then ends / raises as the placement says",
    "RecordWriter: collecting fake (records the URI, the records, flush/close/__exit__ calls)",
    "itertools.islice: generator model of its documented contract (the C implementation would realise skip/count)",
    "argparse: real parsing of the real argv; skip/count are overwritten with the symbolic values afterwards",
    "make_selector: the real function is called and its result's engine checked, then replaced by the uninterpreted predicate",
]
OUTSIDE = ["real files, compression, real output writers (their own properties)", "numeric argv parsing, negative skip/count", "-E expressions"]
ASSUMPTIONS = ["reference pipeline harness/C16.py:ref_pipeline written from the statement"]

ob = mk("harness.C16", PROPERTY)
# known finding: -F / -X are applied a second time by the csv / text / line writers (rdump passes them on in the writer URI), after
# --multi-timestamp has added ts / ts_description, so those modes drop columns that the stream / JSON output keeps
K4 = "C16/multi-timestamp/projection-applied-again-by-text-writers"
UTC = _dt.timezone.utc
GEN = _dt.datetime(2020, 1, 1, tzinfo=UTC)
T1 = _dt.datetime(2001, 1, 1, tzinfo=UTC)
T2 = _dt.datetime(2002, 2, 2, 2, 2, 2, tzinfo=UTC)

# descriptor pool: two types share a name (a schema that changed between sources), one has datetime fields
TYPES = [
    ("t/a", [("record", "a"), ("string", "b"), ("record", "c")]),
    ("t/a", [("record", "a"), ("record", "c"), ("record", "d")]),
    ("t/ts", [("datetime", "ts"), ("record", "a"), ("datetime", "when")]),
    ("t/b", [("record", "d"), ("record", "a")]),
    # same name AND same field names as the first one, another type for b (a cache keyed by name and field names goes stale)
    ("t/a", [("record", "a"), ("record", "b"), ("record", "c")]),
]
TYPED = {"record": "varint"}  # replay uses coercing types


def _descs(typed=False):
    from flow.record import RecordDescriptor

    return [RecordDescriptor(n, [((TYPED.get(t, t) if typed else t), f) for t, f in fs]) for n, fs in TYPES]


def _field_values(ti, i, v):
    """values of record number i of type ti; `v` is the carrier for field a"""
    out = {}
    for t, f in TYPES[ti][1]:
        if f == "a":
            out[f] = v
        elif t == "record":
            out[f] = 1000 + 10 * i + len(f) + ord(f[0])
        elif t == "string":
            out[f] = f"s{i}"
        elif f == "ts":
            out[f] = T1
        else:
            out[f] = T2
    return out


def model_islice(it, start, stop):
    i = 0
    for x in it:
        if stop is not None and i >= stop:
            break
        if i >= start:
            yield x
        i += 1


class _Untraced:
    """argparse runs outside the tracer (its inputs are the concrete argv); skip / count are overwritten with the symbolic
    values after the real parse."""

    def __init__(self, obj, skip, count):
        object.__setattr__(self, "_o", obj)
        object.__setattr__(self, "_sc", (skip, count))

    def __getattr__(self, name):
        attr = getattr(self._o, name)
        if not callable(attr):
            return attr
        skip, count = self._sc

        def call(*a, **k):
            with NoTracing():
                r = attr(*a, **k)
                sub = isinstance(r, argparse._ActionsContainer)
            if sub:
                return _Untraced(r, skip, count)
            if name == "parse_args":
                r.skip = skip
                r.count = count
            return r

        return call


class Collect:
    instances = []

    def __init__(self, uri, *a, **k):
        self.uri = uri
        self.out = []
        self.calls = []
        Collect.instances.append(self)

    def write(self, r):
        self.calls.append("write")
        self.out.append(r)

    def flush(self):
        self.calls.append("flush")

    def close(self):
        self.calls.append("close")

    def __exit__(self, *a):
        self.calls.append("exit")


def _want_fields(fields, flist, xlist):
    names = [f for _, f in fields]
    types = dict((f, t) for t, f in fields)
    xl = xlist or []
    if flist:
        want = [n for n in flist if n in names and n not in xl]
    else:
        want = [n for n in names if n not in xl]
    return [(types[n], n) for n in want]


def ref_pipeline(cfg, per_src, outcomes, skip, count):
    """per_src: list of lists of (type index, values dict). Returns the expected output as a list of
    (name, field tuples, values list, _source, _classification)."""
    stream = []
    j = 0
    for (k, end), recs in zip(cfg["srcs"], per_src):
        if end.startswith("open"):
            continue
        for ti, vals in recs[:k]:
            if outcomes[j]:
                stream.append((ti, vals))
            j += 1
    out = []
    pos = 0
    for ti, vals in stream:
        keep = pos >= skip and (count == 0 or pos < skip + count)
        pos += 1
        if not keep:
            continue
        name, fields = TYPES[ti]
        src = cfg.get("rsource") if cfg.get("rsource") is not None else "orig-src"
        cls = cfg.get("rclass") if cfg.get("rclass") is not None else "orig-cls"
        pf = _want_fields(fields, cfg.get("fields"), cfg.get("exclude")) if (cfg.get("fields") or cfg.get("exclude")) else list(fields)
        if cfg.get("list"):
            continue
        dts = [f for t, f in pf if t == "datetime"]
        if cfg.get("multi") and dts:
            rest = [(t, f) for t, f in pf if f not in ("ts", "ts_description")]
            for f in dts:
                ef = [("datetime", "ts"), ("string", "ts_description")] + rest
                ev = [vals[f], f] + [vals[g] for _, g in rest]
                out.append((name, ef, ev, src, cls))
        else:
            out.append((name, pf, [vals[f] for _, f in pf], src, cls))
    return out


def _same(a, b):
    return (a is None and b is None) or (a is not None and b is not None and a == b)


def _argv(cfg, typed=False):
    argv = [f"src{i}" for i in range(len(cfg["srcs"]))]
    if cfg.get("fields"):
        argv += ["-F", ",".join(cfg["fields"])]
    if cfg.get("exclude"):
        argv += ["-X", ",".join(cfg["exclude"])]
    if cfg.get("rsource") is not None:
        argv += ["--record-source", cfg["rsource"]]
    if cfg.get("rclass") is not None:
        argv += ["--record-classification", cfg["rclass"]]
    if cfg.get("multi"):
        argv += ["--multi-timestamp"]
    if cfg.get("nocompile"):
        argv += ["-n"]
    if cfg.get("list"):
        argv += ["-l"]
    if cfg.get("selector") or cfg.get("seltext"):
        argv += ["-s", cfg.get("selector") or cfg["seltext"]]
    return argv


def pipeline(cfg: dict):
    import flow.record.stream as S
    import flow.record.tools.rdump as RD
    from flow.record.selector import CompiledSelector, Selector

    descs = _descs()
    nrec = sum(k for k, end in cfg["srcs"] if not end.startswith("open"))
    assert nrec <= 6
    real_selector = cfg.get("selector")
    logging.disable(logging.CRITICAL)

    def check(skip: int, count: int, b0: bool, b1: bool, b2: bool, b3: bool, b4: bool, b5: bool, v0: int, v1: int, v2: int, v3: int, v4: int, v5: int) -> bool:
        """
        post: _
        """
        if not (0 <= skip <= nrec + 2 and 0 <= count <= nrec + 2):
            return True
        outs = [True] * nrec if cfg.get("all_match") else [b0, b1, b2, b3, b4, b5][:nrec]
        carriers = [v0, v1, v2, v3, v4, v5]
        per_src = []
        i = 0
        for si, (k, end) in enumerate(cfg["srcs"]):
            recs = []
            if not end.startswith("open"):
                for _ in range(k):
                    ti = cfg["types"][i % len(cfg["types"])]
                    recs.append((ti, _field_values(ti, i, carriers[i])))
                    i += 1
            per_src.append(recs)
        sel = OutcomeSelector(outs)
        closed = []
        made = []

        class Damage(Exception):
            """a failure of an arbitrary class (a decoder, a codec, a third-party adapter): nothing a handler could have listed"""

        class FakeReader:
            def __init__(self, src, selector=None):
                self.si = int(src[3:])
                self.k, self.end = cfg["srcs"][self.si]
                self.selector = selector
                if self.end == "open_ioerr":
                    raise IOError("cannot open")
                if self.end == "open_exc":
                    raise Damage("unknown adapter")

            def __iter__(self):
                for ti, vals in per_src[self.si]:
                    rec = descs[ti](_source="orig-src", _classification="orig-cls", _generated=GEN, **vals)
                    if not self.selector or self.selector.match(rec):
                        yield rec
                if self.end == "ioerr":
                    raise IOError("truncated")
                if self.end == "exc":
                    raise Damage("garbage")

            def close(self):
                closed.append(self.si)

            def __repr__(self):
                return "FakeReader"

        real_make = RD.make_selector

        def make(s, force_compiled=False, *a, **k):
            made.append((s, type(real_make(s, force_compiled, *a, **k)).__name__ if s else None))
            return sel

        RealParser = argparse.ArgumentParser

        def parser_factory(*a, **k):
            with NoTracing():
                p = RealParser(*a, **k)
            return _Untraced(p, skip, count)

        saved = (RD.islice, RD.RecordWriter, RD.make_selector, S.RecordReader)
        del Collect.instances[:]
        shim = types.SimpleNamespace(ArgumentParser=parser_factory, ArgumentDefaultsHelpFormatter=argparse.ArgumentDefaultsHelpFormatter, SUPPRESS=argparse.SUPPRESS)
        sys.modules["argparse"] = shim  # main() does `import argparse` locally
        RD.islice = model_islice
        RD.RecordWriter = Collect
        if not real_selector:
            RD.make_selector = make
        S.RecordReader = FakeReader
        raised = None
        try:
            with contextlib.redirect_stdout(io.StringIO()), contextlib.redirect_stderr(io.StringIO()):
                RD.main(_argv(cfg))
        except Exception as e:  # noqa: BLE001
            raised = e
        finally:
            sys.modules["argparse"] = argparse
            RD.islice, RD.RecordWriter, RD.make_selector, S.RecordReader = saved
        if raised is not None:
            if os.environ.get("VERIF_DEBUG"):
                import traceback

                traceback.print_exception(raised)
            return False
        if len(Collect.instances) != 1:
            return False
        w = Collect.instances[0]
        # the writer is released exactly once, after the last write
        if [c for c in w.calls if c in ("exit", "close")] != ["exit"] or w.calls[-1] != "exit":
            return False
        if real_selector:
            # reference: Python's meaning of the selector text over the same values
            outs = [_ref_select(real_selector, vals) for recs in per_src for ti, vals in recs]
        exp = ref_pipeline(cfg, per_src, outs, skip, count)
        if len(w.out) != len(exp):
            return False
        for got, (name, ef, ev, src, cls) in zip(w.out, exp):
            if got._desc.name != name or list(got._desc.get_field_tuples()) != ef:
                return False
            for (t, f), v in zip(ef, ev):
                if not _same(getattr(got, f), v):
                    return False
            if got._source != src or got._classification != cls or got._generated != GEN:
                return False
        if not real_selector:
            want_engine = "Selector" if cfg.get("nocompile") else "CompiledSelector"
            if made != [(cfg.get("seltext"), want_engine if cfg.get("seltext") else None)]:
                return False
        # a source that was read to its end is closed
        ok_srcs = [si for si, (k, end) in enumerate(cfg["srcs"]) if end == "ok"]
        if count == 0 and closed != ok_srcs:
            return False
        return True

    return check


def _ref_select(text, vals):
    class R:
        pass

    r = R()
    for k, v in vals.items():
        setattr(r, k, v)
    return bool(eval(text, {"__builtins__": {}}, {"r": r}))  # selector texts come from the table below


# (negative literals are outside the interpreted engine's language: it rejects unary minus, see DESIGN.md 4 observations)
REAL_SELECTORS = ["r.a > 2", "r.a == r.c or r.a < 1", "not (r.a >= 0)", "r.a in [1, 2]", "1 <= r.a <= 3"]


# ------------------------------------------------------------------------------------------------ writer URI table (side)
def uri_table():
    """Which adapter and which options a given output mode / writer / split combination reaches: the real main() runs with the
    collecting writer and the URI it builds is parsed the way RecordWriter parses it."""
    from urllib.parse import parse_qsl, urlparse

    import flow.record.tools.rdump as RD

    bad = []
    n = 0
    saved = (RD.RecordWriter, RD.record_stream)
    RD.RecordWriter = Collect
    RD.record_stream = lambda src, sel: iter(())
    logging.disable(logging.CRITICAL)
    try:
        modes = {None: "text", "csv": "csvfile", "json": "jsonfile", "jsonlines": "jsonfile", "line": "line", "line-verbose": "line"}
        for mode, scheme in modes.items():
            for fields in (None, "a,b"):
                for exclude in (None, "c"):
                    for fmt in (None, "{a}"):
                        argv = ["x"] + (["-m", mode] if mode else []) + (["-F", fields] if fields else []) + (["-X", exclude] if exclude else []) + (["-f", fmt] if fmt else [])
                        del Collect.instances[:]
                        RD.main(argv)
                        uri = Collect.instances[0].uri
                        p = urlparse(uri)
                        q = dict(parse_qsl(p.query))
                        n += 1
                        if p.scheme != scheme:
                            bad.append(f"{argv}: scheme {p.scheme!r}, expected {scheme!r}")
                        if mode == "json" and (q.get("indent") != "2" or q.get("descriptors") != "false"):
                            bad.append(f"{argv}: {uri!r} loses the json mode's options")
                        if mode == "jsonlines" and q.get("descriptors") != "false":
                            bad.append(f"{argv}: {uri!r} loses descriptors=false")
                        if mode == "line-verbose" and q.get("verbose") != "true":
                            bad.append(f"{argv}: {uri!r} loses verbose=true")
        for writer in ("out.records", "out.records.gz", "jsonfile://out.json?descriptors=true", "csvfile://out.csv"):
            for split, sl in ((None, None), (3, None), (5, 4)):
                argv = ["x", "-w", writer] + (["--split", str(split)] if split else []) + (["--suffix-length", str(sl)] if sl else [])
                del Collect.instances[:]
                RD.main(argv)
                uri = Collect.instances[0].uri
                n += 1
                if not split:
                    if uri != writer:
                        bad.append(f"{argv}: uri {uri!r}, expected the writer argument")
                    continue
                p = urlparse(uri)
                q = dict(parse_qsl(p.query))
                inner_scheme = writer.split("://")[0] if "://" in writer else ""
                want_scheme = "split+" + inner_scheme if inner_scheme else "split"
                inner_path = writer.split("://", 1)[-1].split("?")[0]
                if p.scheme != want_scheme or (p.netloc + p.path) != inner_path:
                    bad.append(f"{argv}: uri {uri!r} does not wrap {writer!r}")
                if q.get("count") != str(split) or q.get("suffix-length") != str(sl or 2):
                    bad.append(f"{argv}: uri {uri!r} has count/suffix-length {q.get('count')}/{q.get('suffix-length')}")
                if "descriptors=true" in writer and q.get("descriptors") != "true":
                    bad.append(f"{argv}: uri {uri!r} loses the inner writer's options")
    finally:
        RD.RecordWriter, RD.record_stream = saved
    return {"ok": not bad, "detail": f"{n} option combinations; " + "; ".join(bad[:3]), "cex": {"kw": {"bad": bad[:5]}}}


# ------------------------------------------------------------------------------------------------ end-to-end battery (side)
def e2e(which: str = "all"):
    out = _e2e(which)
    return {"ok": not out, "detail": "real rdump.main over real files vs the reference pipeline; " + "; ".join(out[:3]), "cex": {"kw": {"bad": out[:5], "which": which}}}


def _e2e(which="all"):
    """Real files, real readers and writers: rdump.main over good / missing / truncated / garbage sources into every output
    mode; the records that come out are compared with the reference pipeline (concrete; model validation and replay oracle)."""
    import contextlib
    import io
    import json

    import flow.record.tools.rdump as RD
    from flow.record import RecordReader, RecordWriter

    logging.disable(logging.CRITICAL)
    descs = _descs(typed=True)
    bad = []
    with tempdir() as d:
        # sources: two good files of mixed types, one truncated, one garbage, one missing, one empty, one gz
        def mk_src(name, idxs, start, big=False):
            p = os.path.join(d, name)
            w = RecordWriter(p)
            recs = []
            for j, ti in enumerate(idxs):
                vals = _field_values(ti, start + j, start + j)
                if big and "b" in vals:
                    # one record far larger than the whole compressed file
                    vals["b"] = "abcdefgh" * 2000
                w.write(descs[ti](_source="orig-src", _classification="orig-cls", _generated=GEN, **vals))
                recs.append((ti, vals))
            w.flush()
            w.close()
            return p, recs

        g1, r1 = mk_src("g1.records", [0, 1, 2, 0], 0)
        g2, r2 = mk_src("g2.records.gz", [1, 0, 3, 2], 4, big=True)
        g3, r3 = mk_src("g3.records", [0, 0, 3], 8)
        gz2, rz2 = mk_src("g4.records.bz2", [0, 3], 11, big=True)
        raw = open(g3, "rb").read()
        tr = os.path.join(d, "trunc.records")
        # cut inside the last record frame: the first two records are intact
        open(tr, "wb").write(raw[: len(raw) - 5])
        # the last record frame's msgpack ext type byte is damaged: the decoder fails with an exception of no particular class
        be = os.path.join(d, "badext.records")
        pos = 0
        last = None
        while pos + 4 <= len(raw):
            (ln,) = __import__("struct").unpack(">I", raw[pos : pos + 4])
            last = (pos + 4, ln)
            pos += 4 + ln
        body = bytearray(raw)
        start, ln = last
        hdr = {0xC7: 2, 0xC8: 3, 0xC9: 5}.get(body[start])
        if hdr is not None and body[start + hdr] == 14:
            body[start + hdr] = 15
        open(be, "wb").write(bytes(body))
        gb = os.path.join(d, "garbage.records")
        open(gb, "wb").write(b"\x00\x01garbage that is not a record stream" * 3)
        em = os.path.join(d, "empty.records")
        open(em, "wb").write(b"")
        missing = os.path.join(d, "missing.records")
        SRC = {"g1": (g1, r1, 4, "ok"), "g2": (g2, r2, 4, "ok"), "bz": (gz2, rz2, 2, "ok"), "trunc": (tr, r3, 2, "ioerr"), "badext": (be, r3, 2, "exc"), "garbage": (gb, [], 0, "open_exc"), "empty": (em, [], 0, "open_exc"), "missing": (missing, [], 0, "open_ioerr")}
        placements = [("g1",), ("g1", "g2"), ("missing", "g1"), ("g1", "garbage", "g2"), ("trunc", "g2"), ("g1", "trunc", "missing", "g2"), ("empty", "g2", "garbage"), ("garbage",), ("missing", "trunc"), ("bz", "g1"), ("trunc", "bz", "g2"), ("badext", "g1"), ("g1", "badext", "g2")]
        option_sets = [
            {},
            {"skip": 1, "count": 2},
            {"skip": 0, "count": 3, "selector": "r.a > 2"},
            {"skip": 2, "selector": "r.a > 2", "nocompile": True},
            {"fields": ["a", "d"]},
            {"exclude": ["a"], "count": 4},
            {"fields": ["c", "a"], "exclude": ["c"], "skip": 1},
            {"rsource": "new-src", "rclass": "new-cls", "skip": 3},
            {"multi": True},
            {"multi": True, "rsource": "S2", "fields": ["when", "a"], "count": 3},
            {"multi": True, "exclude": ["ts"], "skip": 1},
        ]
        if which != "all":
            lo, hi = [int(x) for x in which.split(":")]
            option_sets = option_sets[lo:hi]
        for pl in placements:
            for opts in option_sets:
                cfg = dict(opts)
                cfg["srcs"] = [(SRC[s][2], SRC[s][3]) for s in pl]
                per_src = [SRC[s][1] for s in pl]
                flat = [vals for s in pl for ti, vals in SRC[s][1][: SRC[s][2]]]
                outs = [(_ref_select(opts["selector"], vals) if opts.get("selector") else True) for vals in flat]
                exp = ref_pipeline(cfg, per_src, outs, opts.get("skip", 0), opts.get("count", 0))
                base = [SRC[s][0] for s in pl]
                extra = []
                if "skip" in opts:
                    extra += ["--skip", str(opts["skip"])]
                if opts.get("count"):
                    extra += ["-c", str(opts["count"])]
                tail = _argv(cfg)[len(pl) :]
                for mode in ("stream", "jsonlines", "csv", "stdout-json", "line"):
                    outp = os.path.join(d, "out." + mode)
                    if os.path.exists(outp):
                        os.unlink(outp)
                    argv = base + extra + tail
                    buf = _Out()
                    if mode == "stream":
                        argv += ["-w", outp + ".records"]
                    elif mode == "jsonlines":
                        argv += ["-w", "jsonfile://" + outp + "?descriptors=true"]
                    elif mode == "csv":
                        argv += ["-m", "csv"]
                    elif mode == "stdout-json":
                        argv += ["-J"]
                    else:
                        argv += ["-L"]
                    try:
                        with contextlib.redirect_stdout(buf), contextlib.redirect_stderr(io.StringIO()):
                            RD.main(argv)
                    except BaseException as e:  # noqa: BLE001
                        bad.append(f"rdump {' '.join(argv[len(base):])} over {pl}: raised {type(e).__name__}: {e}")
                        continue
                    try:
                        if mode == "stream":
                            if not exp and not os.path.exists(outp + ".records"):
                                continue
                            got = [(r._desc.name, list(r._desc.get_field_tuples()), [getattr(r, f) for _, f in r._desc.get_field_tuples()], r._source, r._classification) for r in _read_or_empty(outp + ".records")]
                            want = [(n, [(TYPED.get(t, t), f) for t, f in ef], ev, s, c) for n, ef, ev, s, c in exp]
                        elif mode == "jsonlines":
                            got = [(r._desc.name, list(r._desc.get_field_tuples()), [getattr(r, f) for _, f in r._desc.get_field_tuples()], r._source, r._classification) for r in RecordReader("jsonfile://" + outp)]
                            want = [(n, [(TYPED.get(t, t), f) for t, f in ef], ev, s, c) for n, ef, ev, s, c in exp]
                        elif mode == "stdout-json":
                            docs = [json.loads(line) for line in buf.getvalue().splitlines() if line.strip()]
                            got = [([k for k in doc if not k.startswith("_")], doc.get("a"), doc.get("_source")) for doc in docs]
                            want = [([f for _, f in ef], dict(zip([f for _, f in ef], ev)).get("a"), s) for n, ef, ev, s, c in exp]
                        elif mode == "csv":
                            got, want = _csv_compare(buf.getvalue(), exp)
                        else:
                            text = buf.getvalue()
                            got = text.count("--[ RECORD ")
                            want = len(exp)
                        if got != want:
                            k4 = mode == "csv" and opts.get("multi") and (opts.get("fields") or opts.get("exclude")) and "header" in str(got)
                            bad.append(("[K4] " if k4 else "") + f"rdump {' '.join(argv[len(base):])} over sources {pl} [{mode}]: got {str(got)[:300]}, reference pipeline gives {str(want)[:300]}")
                    except Exception as e:  # noqa: BLE001
                        bad.append(f"rdump {' '.join(argv[len(base):])} over {pl} [{mode}]: output unreadable: {type(e).__name__}: {e}")
                    finally:
                        for p in (outp, outp + ".records"):
                            if os.path.exists(p):
                                os.unlink(p)
    return bad


def e2e_split():
    out = _e2e_split()
    return {"ok": not out, "detail": "real rdump.main --split over real files; " + "; ".join(out[:3]), "cex": {"kw": {"bad": out[:5]}}}


def _e2e_split():
    """rdump -w PATH --split COUNT --suffix-length L with real files: the parts, in the order they were opened, each hold at most COUNT
    records and their concatenation is exactly the selected input - also when more than 10**L parts are needed."""
    import contextlib
    import glob
    import re

    import flow.record.tools.rdump as RD
    from flow.record import RecordDescriptor, RecordReader, RecordWriter

    logging.disable(logging.CRITICAL)
    D = RecordDescriptor("test/split", [("varint", "n")])
    bad = []
    with tempdir() as d:
        for total, count, slen, scheme in ((12, 1, 1, ""), (25, 2, 1, ""), (10, 1, 1, ""), (7, 3, 2, ""), (205, 2, 2, ""), (23, 2, 1, "jsonfile://")):
            src = os.path.join(d, f"in-{total}.records")
            w = RecordWriter(src)
            for i in range(total):
                w.write(D(i))
            w.flush()
            w.close()
            outdir = os.path.join(d, f"out-{total}-{count}-{slen}-{len(scheme)}")
            os.makedirs(outdir)
            ext = "json" if scheme else "records"
            argv = [src, "-w", scheme + os.path.join(outdir, "part." + ext), "--split", str(count), "--suffix-length", str(slen)]
            try:
                with contextlib.redirect_stdout(_Out()), contextlib.redirect_stderr(io.StringIO()):
                    RD.main(argv)
            except BaseException as e:  # noqa: BLE001
                bad.append(f"rdump {' '.join(argv[1:])}: raised {type(e).__name__}: {e}")
                continue
            parts = glob.glob(os.path.join(outdir, "part.*"))

            def num(p):
                m = re.search(r"part\.(\d+)\.", os.path.basename(p))
                return int(m.group(1)) if m else -1

            got = []
            for p in sorted(parts, key=num):
                try:
                    with RecordReader((scheme or "") + p) as rd:
                        ns = [int(r.n) for r in rd]
                except Exception as e:  # noqa: BLE001
                    if os.path.getsize(p) == 0:
                        continue  # a trailing part without records is C17's known finding K3
                    bad.append(f"rdump --split {count} --suffix-length {slen} ({total} records): part {os.path.basename(p)} unreadable: {type(e).__name__}: {e}")
                    ns = []
                if len(ns) > count:
                    bad.append(f"rdump --split {count}: part {os.path.basename(p)} holds {len(ns)} records")
                got += ns
            if got != list(range(total)):
                missing = [i for i in range(total) if i not in got]
                bad.append(f"rdump -w part.{ext} --split {count} --suffix-length {slen} over {total} records: the parts hold {len(got)} records in {len(parts)} files, missing {missing[:8]}")
    return bad


def _csv_compare(text, exp):
    """walk the CSV output along the expected records: a header row whenever the (projected) descriptor changes, then one data row
    per record whose simple cells equal the expected values. Returns (problem or None, None)."""
    import csv

    rows = list(csv.reader(io.StringIO(text, newline="")))
    prev = None
    header = None
    for n, ef, ev, src, cls in exp:
        if prev != (n, ef):
            prev = (n, ef)
            if not rows:
                return "output ends before the header of " + n, None
            header = rows.pop(0)
            if [h for h in header if not h.startswith("_")] != [f for _, f in ef]:
                return f"header {header} for fields {[f for _, f in ef]}", None
        if not rows:
            return f"output ends early ({len(exp)} records expected)", None
        row = dict(zip(header, rows.pop(0)))
        for (t, f), v in zip(ef, ev):
            if t in ("record", "string") and row.get(f) != str(v):
                return f"cell {f}={row.get(f)!r}, expected {v!r}", None
        if "_source" in row and row["_source"] != src:
            return f"_source cell {row['_source']!r}, expected {src!r}", None
    if rows:
        return f"{len(rows)} surplus rows, first {rows[0]}", None
    return None, None


class _Out(io.TextIOWrapper):
    """stand-in for sys.stdout that has a .buffer, as the writers expect"""

    def __init__(self):
        super().__init__(io.BytesIO(), encoding="utf-8", write_through=True)

    def getvalue(self):
        self.flush()
        return self.buffer.getvalue().decode("utf-8", "surrogateescape")

    def close(self):  # writers to stdout close their file object
        self.flush()


def _read_or_empty(path):
    from flow.record import RecordReader

    if os.path.getsize(path) == 0:
        return []
    return list(RecordReader(path))


# ------------------------------------------------------------------------------------------------ obligations
SRC_OPTS = [(1, "ok"), (0, "ok"), (1, "ioerr"), (0, "ioerr"), (1, "exc"), (0, "exc"), (0, "open_ioerr"), (0, "open_exc"), (2, "ok"), (2, "ioerr")]
F_OPTS = [None, ["a"], ["c", "a"], ["b", "zz"], ["d"]]
X_OPTS = [None, ["a"], ["b", "c"]]


def obligations(tier, seed):
    to = 60 if tier == "quick" else 240
    obs = []
    rnd = random.Random(seed)
    # O1 slice x filter: one source, N records of mixed types
    for n in (3, 4) if tier == "quick" else (3, 4, 5, 6):
        for nocompile in (False, True):
            cfg = {"srcs": [(n, "ok")], "types": [0, 1, 3], "nocompile": nocompile, "seltext": "r.a > 0"}
            obs.append(ob(f"O1-slice/n{n}{'-n' if nocompile else ''}", "xh", "pipeline", {"cfg": cfg}, timeout=to * 2, group="O1-slice", bounds="skip, count in [0, n+2]; every outcome vector; carriers all ints"))
    # O2 fault placements
    pairs = list(itertools.product(range(len(SRC_OPTS)), repeat=2))
    triples = [t for t in itertools.product(range(len(SRC_OPTS)), repeat=3) if sum(SRC_OPTS[i][0] for i in t) <= 4]
    if tier == "quick":
        rnd.shuffle(triples)
        triples = triples[:48]
    for pl in pairs + triples:
        srcs = [SRC_OPTS[i] for i in pl]
        if sum(k for k, e in srcs) == 0 and len(pl) == 3 and tier == "quick":
            continue
        cfg = {"srcs": srcs, "types": [0, 3]}
        obs.append(ob("O2-faults/" + "".join(map(str, pl)), "xh", "pipeline", {"cfg": cfg}, timeout=to, group="O2-faults", bounds="skip, count symbolic; every outcome vector; placement fixed by the driver"))
    # O3 options
    combos = []
    for f in F_OPTS:
        for x in X_OPTS:
            for rs, rc in ((None, None), ("S2", None), (None, "C2"), ("", "C2"), ("S2", "")):
                for multi in (False, True):
                    combos.append({"fields": f, "exclude": x, "rsource": rs, "rclass": rc, "multi": multi})
    if tier == "quick":
        keep = [c for c in combos if (c["rsource"], c["rclass"]) in ((None, None), ("S2", None))] + rnd.sample([c for c in combos if c["rclass"]], 16)
        # an override given as the empty string is an override too (always kept: one per option, with and without a projection)
        keep += [c for c in combos if "" in (c["rsource"], c["rclass"]) and not c["multi"] and c["exclude"] == X_OPTS[0] and c["fields"] in (F_OPTS[0], F_OPTS[1]) and c not in keep]
        combos = keep
    for i, c in enumerate(combos):
        cfg = dict(c, srcs=[(2, "ok"), (1, "ok")], types=([0, 4, 1] if i % 2 else [0, 1, 2]) if not c["multi"] else [2, 0, 4], all_match=bool(i % 5))
        tag = f"F{'+'.join(c['fields']) if c['fields'] else '-'}.X{'+'.join(c['exclude']) if c['exclude'] else '-'}.{'s' if c['rsource'] is not None else ''}{'c' if c['rclass'] is not None else ''}{'m' if c['multi'] else ''}.{i}"
        obs.append(ob("O3-options/" + tag, "xh", "pipeline", {"cfg": cfg}, timeout=to, group="O3-options", bounds="skip, count symbolic; every outcome vector; option set fixed by the driver"))
    # O4 list mode writes nothing
    obs.append(ob("O4-list", "xh", "pipeline", {"cfg": {"srcs": [(2, "ok"), (1, "ioerr")], "types": [0, 1], "list": True}}, timeout=to, group="O4-list"))
    # O5 real selectors, both engines, symbolic field values
    for si, text in enumerate(REAL_SELECTORS):
        for nocompile in (False, True):
            cfg = {"srcs": [(1, "ok"), (1, "exc"), (1, "ok")], "types": [0], "selector": text, "nocompile": nocompile}
            obs.append(ob(f"O5-engines/{si}{'-n' if nocompile else ''}", "xh", "pipeline", {"cfg": cfg}, timeout=to * 2, group="O5-engines", bounds="field values all ints; skip, count symbolic"))
    obs.append(ob("S1-uri-table", "side", "uri_table", {}, group="S1-uri"))
    n_opts = 11
    for lo in range(0, n_opts, 2):
        obs.append(ob(f"S2-e2e/{lo}", "side", "e2e", {"which": f"{lo}:{lo + 2}"}, timeout=300, group="S2-e2e"))
    obs.append(ob("S3-e2e-split", "side", "e2e_split", {}, timeout=300, group="S3-e2e-split"))
    return obs


# ------------------------------------------------------------------------------------------------ replay
def replay(res):
    """Independent oracle: the real rdump over real files (sources written with the real writer, truncated / garbage / missing
    as the placement says), output read back with the real reader, compared with the reference pipeline on concrete values."""
    gid = res["id"]
    if "S1-uri" in gid:
        out = uri_table()
        return {"reproduced": not out["ok"], "key": "C16/uri-table", "what": out["detail"][:500]}
    if "S3-e2e-split" in gid:
        bad = _e2e_split()
        return {"reproduced": bool(bad), "key": "C16/e2e-split", "what": "; ".join(bad[:2])[:700], "input": {}}
    if "S2-e2e" in gid:
        bad = _e2e(res["args"].get("which", "all"))
        other = [b for b in bad if not b.startswith("[K4]")]
        if bad and not other:
            return {"reproduced": True, "key": K4, "what": bad[0][5:600]}
        return {"reproduced": bool(other), "key": "C16/e2e/" + (other[0][:80] if other else ""), "what": "; ".join(other[:2])[:700]}
    cfg = res["args"]["cfg"]
    bad = _replay_cfg(cfg, res)
    return {"reproduced": bool(bad), "key": "C16/" + gid.split("/", 1)[1], "what": "; ".join(bad[:2])[:700], "input": cfg}


def _replay_cfg(cfg, res):
    import contextlib
    import io

    import flow.record.tools.rdump as RD
    from flow.record import RecordWriter

    logging.disable(logging.CRITICAL)
    descs = _descs(typed=True)
    cv = cex_args(res, ["skip", "count", "b0", "b1", "b2", "b3", "b4", "b5", "v0", "v1", "v2", "v3", "v4", "v5"])
    cvals = [cv.get(f"v{j}") for j in range(6)]
    if not all(isinstance(v, int) and -(2**62) < v < 2**62 for v in cvals):
        cvals = list(range(6))
    nrec = sum(k for k, end in cfg["srcs"] if not end.startswith("open"))
    if not cfg.get("selector"):
        # the uninterpreted predicate's outcome vector is realised by a membership selector over distinct values
        cvals = list(range(10, 16))
        bs = [bool(cv.get(f"b{j}", True)) or bool(cfg.get("all_match")) for j in range(6)]
        cfg = dict(cfg, selector="r.a in [%s]" % ", ".join(str(cvals[j]) for j in range(nrec) if bs[j]))
    slices = [(cv.get("skip", 0), cv.get("count", 0))] + [(s, c) for s in range(0, nrec + 2) for c in range(0, nrec + 2)]
    bad = []
    with tempdir() as d:
        per_src = []
        paths = []
        i = 0
        for si, (k, end) in enumerate(cfg["srcs"]):
            p = os.path.join(d, f"src{si}.records")
            recs = []
            if end == "open_ioerr":
                pass  # missing file
            elif end == "open_exc":
                open(p, "wb").write(b"this is not a record stream at all" * 2)
            else:
                w = RecordWriter(p)
                for _ in range(k):
                    ti = cfg["types"][i % len(cfg["types"])]
                    vals = _field_values(ti, i, cvals[i])
                    w.write(descs[ti](_source="orig-src", _classification="orig-cls", _generated=GEN, **vals))
                    recs.append((ti, vals))
                    i += 1
                if end != "ok":
                    # a further record, cut in the middle of its frame
                    ti = cfg["types"][0]
                    w.write(descs[ti](_source="x", _generated=GEN, **_field_values(ti, 99, 99)))
                w.flush()
                w.close()
                if end != "ok":
                    raw = open(p, "rb").read()
                    open(p, "wb").write(raw[:-7])
            per_src.append(recs)
            paths.append(p)
        sel = cfg["selector"]
        flat = [vals for recs in per_src for ti, vals in recs]
        outs = [_ref_select(sel, vals) for vals in flat]
        for skip, count in slices[:12]:
            exp = ref_pipeline(cfg, per_src, outs, skip, count)
            outp = os.path.join(d, "out.records")
            if os.path.exists(outp):
                os.unlink(outp)
            argv = paths + _argv(dict(cfg, selector=sel))[len(paths) :] + ["--skip", str(skip), "-w", outp] + (["-c", str(count)] if count else [])
            buf = _Out()
            try:
                with contextlib.redirect_stdout(buf), contextlib.redirect_stderr(io.StringIO()):
                    RD.main(argv)
                got = [(r._desc.name, list(r._desc.get_field_tuples()), [getattr(r, f) for _, f in r._desc.get_field_tuples()], r._source, r._classification) for r in _read_or_empty(outp)] if os.path.exists(outp) else []
            except BaseException as e:  # noqa: BLE001
                bad.append(f"rdump {' '.join(argv[len(paths):])} over {cfg['srcs']}: raised {type(e).__name__}: {e}")
                continue
            want = [(n, [(TYPED.get(t, t), f) for t, f in ef], ev, s, c) for n, ef, ev, s, c in exp]
            if got != want:
                bad.append(f"rdump {' '.join(a for a in argv[len(paths):] if a != outp)} over sources {cfg['srcs']} (record types {cfg['types']}): wrote {str(got)[:300]}, reference pipeline gives {str(want)[:300]}")
                break
    return bad
