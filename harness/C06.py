"""C06 - descriptor names are validated; untrusted definitions cannot inject code.

O1 language inclusion (SMT regex theory, unbounded strings): the accept decision of is_valid_field_name (translated from its
   AST, with the live regex) and of the type-name regex against the reference languages of ASCII identifiers.
O3 type names (SMT strings): fieldtype() does not raise  =>  the name is whitelisted (optionally in list form).
O2/O4 the residue the solver cannot decide (the trailing-newline slack of '$', Python's own parser) and the delivery
   channels are covered by replaying solver witnesses and a battery of hostile payloads through the constructor, a crafted
   descriptor frame, a JSON descriptor line and an Avro schema, with an exec-capture tripwire (concrete side conditions).
"""
import ast
import io
import json
import keyword
import os

import z3

from harness.common import mk, tempdir
from spec import wire

PROPERTY = "C06"
FUNCTIONS = [
    "flow.record.base:is_valid_field_name",
    "flow.record.base:RecordDescriptor.calc_descriptor_hash",
    "flow.record.base:_generate_record_class",
    "flow.record.base:RecordField.__init__",
    "flow.record.base:fieldtype",
    "flow.record.base:RecordDescriptor.__init__",
    "flow.record.packer:RecordPacker.unpack_obj",
    "flow.record.jsonpacker:JsonRecordPacker.unpack_obj",
    "flow.record.adapter.avro:schema_to_descriptor",
]
BOUNDS = {"names": "all strings (unbounded, regex theory)", "type names": "all strings (unbounded)", "channels": "4 delivery channels x battery of hostile payloads and solver witnesses"}
STUBS = ["flow.record.base.exec is shadowed by a recording wrapper in the tripwire side condition"]
OUTSIDE = ["Python's own parser for the trailing-newline class (decided by replaying representatives, not by the solver)"]
ASSUMPTIONS = ["reference languages: field name = [A-Za-z][A-Za-z0-9_]*, type name = identifiers separated by '/'"]

ob = mk("harness.C06", PROPERTY)


def ref_ident():
    L = z3.Union(z3.Range("a", "z"), z3.Range("A", "Z"))
    LD = z3.Union(L, z3.Range("0", "9"), z3.Re("_"))
    return z3.Concat(L, z3.Star(LD))


def ref_typename():
    return z3.Concat(ref_ident(), z3.Star(z3.Concat(z3.Re("/"), ref_ident())))


def _solve(cons, timeout_ms=60000, var=None):
    """var given: the conjunction is folded into one regular language of that variable first (see regex.as_language)"""
    import time

    from vf.smt import regex

    s = z3.Solver()
    s.set("timeout", timeout_ms)
    if var is not None:
        try:
            cons = [z3.InRe(var, regex.as_language(z3.And(*cons), var))]
        except regex.Untranslatable:
            pass
    s.add(*cons)
    t = time.perf_counter()
    r = str(s.check())
    return r, (s.model() if r == "sat" else None), time.perf_counter() - t, s


def field_names():
    """is_valid_field_name(name) (check_reserved=True and False) accepts only ASCII identifiers that do not start with an
    underscore (optionally followed by one newline: the '$' slack, handled in O2), and accepts every such identifier that is
    not reserved."""
    import flow.record.base as B
    from vf.smt import regex
    from vf.smt.kse import Evaluator, Untranslatable, cross_check_cvc5, get_function_ast

    try:
        fn, mod, _ = get_function_ast("flow.record.base:is_valid_field_name")
        name = z3.String("name")
        reserved = list(B.RESERVED_FIELDS)
        total_q = 0
        total_s = 0.0
        crossed = []
        validated = 0
        for check_reserved in (True, False):
            ev = Evaluator(mod, width=64)
            accept = []
            for o in ev.run(list(fn.body), {"name": name, "check_reserved": check_reserved}, []):
                if o.kind != "return" or not isinstance(o.value, bool):
                    raise Untranslatable(f"path ends with {o.kind} {o.value!r}")
                if o.value:
                    accept.append(z3.And(*o.pc) if o.pc else z3.BoolVal(True))
            acc = z3.Or(*accept) if accept else z3.BoolVal(False)
            is_reserved = z3.InRe(name, z3.Union(*[z3.Re(r) for r in reserved]))
            ident = z3.InRe(name, ref_ident())
            ident_nl = z3.InRe(name, z3.Concat(ref_ident(), z3.Re("\n")))
            # (a) accepted => identifier (or identifier + newline), or - only when reserved names are allowed - a reserved name
            allowed = z3.Or(ident, ident_nl) if check_reserved else z3.Or(ident, ident_nl, is_reserved)
            r, m, dt, s1 = _solve([acc, z3.Not(allowed)], var=name)
            total_q += 1
            total_s += dt
            if r == "sat":
                w = regex.model_string(m, name)
                return {"verdict": "sat", "model": {"name": w, "check_reserved": check_reserved}, "detail": f"is_valid_field_name accepts {w!r}, which is not an ASCII identifier without leading underscore", "queries": total_q, "solver_s": total_s}
            if r != "unsat":
                return {"verdict": "unknown", "detail": r, "queries": total_q, "solver_s": total_s}
            # (b) every identifier that is not reserved is accepted
            r, m, dt, s2 = _solve([ident, z3.Not(is_reserved), z3.Not(acc)], var=name)
            total_q += 1
            total_s += dt
            if r == "sat":
                w = regex.model_string(m, name)
                return {"verdict": "sat", "model": {"name": w, "check_reserved": check_reserved, "refused": True}, "detail": f"is_valid_field_name refuses the valid name {w!r}", "queries": total_q, "solver_s": total_s}
            if r != "unsat":
                return {"verdict": "unknown", "detail": r, "queries": total_q, "solver_s": total_s}
            # (c) check_reserved: reserved names are refused
            if check_reserved:
                r, m, dt, _ = _solve([acc, is_reserved], var=name)
                total_q += 1
                total_s += dt
                if r == "sat":
                    return {"verdict": "sat", "model": {"name": regex.model_string(m, name), "check_reserved": True}, "detail": "a reserved field name is accepted as a declared field", "queries": total_q, "solver_s": total_s}
            crossed += [cross_check_cvc5(s1, "unsat"), cross_check_cvc5(s2, "unsat")]
            # translator validation: solver-drawn accepted / refused names against the real function
            for want in (True, False):
                s = z3.Solver()
                s.set("timeout", 20000)
                s.add(z3.InRe(name, regex.as_language(acc if want else z3.Not(acc), name)))
                s.add(z3.Length(name) <= 8)
                for _ in range(10):
                    if str(s.check()) != "sat":
                        break
                    w = regex.model_string(s.model(), name)
                    if bool(B.is_valid_field_name(w, check_reserved)) != want:
                        return {"verdict": "error", "detail": f"translation disagrees with the real function on {w!r}", "queries": total_q, "solver_s": total_s}
                    validated += 1
                    s.add(name != z3.StringVal(w))
        bad = [c for c in crossed if c.startswith("disagree")]
        if bad:
            return {"verdict": "unknown", "detail": f"cvc5 disagrees: {bad}", "queries": total_q, "solver_s": total_s}
        return {"verdict": "unsat", "detail": f"accepted names are ASCII identifiers (+ optional final newline); all non-reserved identifiers accepted; cvc5: {sorted(set(crossed))}", "queries": total_q, "solver_s": total_s, "validated": validated}
    except Untranslatable as e:
        return {"verdict": "unknown", "detail": f"untranslatable: {e}", "queries": 0, "solver_s": 0.0}


def type_names():
    """RE_VALID_RECORD_TYPE_NAME (used with .match): accepted => slash-separated identifiers (+ optional final newline);
    every such name accepted; no accepted name contains a double quote (used by C18)."""
    import flow.record.base as B
    from vf.smt import regex
    from vf.smt.kse import cross_check_cvc5

    try:
        ok, detail, n = regex.validate(B.RE_VALID_RECORD_TYPE_NAME, "match")
        if not ok:
            return {"verdict": "error", "detail": "regex translation: " + detail, "queries": 0, "solver_s": 0.0}
        rx = regex.to_z3(B.RE_VALID_RECORD_TYPE_NAME, "match")
    except regex.Untranslatable as e:
        return {"verdict": "unknown", "detail": f"untranslatable: {e}", "queries": 0, "solver_s": 0.0}
    name = z3.String("name")
    acc = z3.InRe(name, rx)
    ref = z3.InRe(name, ref_typename())
    ref_nl = z3.InRe(name, z3.Concat(ref_typename(), z3.Re("\n")))
    q = 0
    st = 0.0
    crossed = []
    for cons, what in (([acc, z3.Not(z3.Or(ref, ref_nl))], "accepts a name that is not a slash-separated sequence of ASCII identifiers"),
                       ([ref, z3.Not(acc)], "refuses a valid type name"),
                       ([acc, z3.InRe(name, z3.Concat(z3.Star(regex.any_char()), z3.Re('"'), z3.Star(regex.any_char())))], "accepts a name containing a double quote")):
        r, m, dt, s = _solve(cons, var=name if "Contains" not in str(cons[-1].decl()) else None)
        q += 1
        st += dt
        if r == "sat":
            w = regex.model_string(m, name)
            return {"verdict": "sat", "model": {"typename": w}, "detail": f"type-name pattern {what}: {w!r}", "queries": q, "solver_s": st}
        if r != "unsat":
            return {"verdict": "unknown", "detail": r, "queries": q, "solver_s": st}
        crossed.append(cross_check_cvc5(s, "unsat"))
    return {"verdict": "unsat", "detail": f"3 inclusion queries unsat; cvc5: {sorted(set(crossed))}", "queries": q, "solver_s": st, "validated": n}


def fieldtype_guard():
    """fieldtype(clspath) reaches the code after the whitelist test only for whitelisted names, optionally followed by '[]'."""
    import flow.record.base as B
    from flow.record.whitelist import WHITELIST
    from vf.smt import regex
    from vf.smt.kse import Evaluator, Untranslatable, cross_check_cvc5, get_function_ast

    try:
        fn, mod, _ = get_function_ast("flow.record.base:fieldtype")
        # prefix of the body up to and including the statement that raises on a non-whitelisted name
        body = []
        found = False
        for st in fn.body:
            body.append(st)
            if isinstance(st, ast.If) and "WHITELIST" in ast.unparse(st.test):
                found = True
                break
        if not found:
            raise Untranslatable("whitelist test not found")
        clspath = z3.String("clspath")
        ev = Evaluator(mod, width=64)
        passes = []
        for o in ev.run(body, {"clspath": clspath}, []):
            if o.kind == "fall":
                passes.append(z3.And(*o.pc) if o.pc else z3.BoolVal(True))
            elif o.kind != "raise":
                raise Untranslatable(f"path ends with {o.kind}")
        ok = z3.Or(*passes) if passes else z3.BoolVal(False)
        allowed = z3.Or(*[clspath == z3.StringVal(w) for w in WHITELIST] + [clspath == z3.StringVal(w + "[]") for w in WHITELIST])
        r, m, dt, s = _solve([ok, z3.Not(allowed)], var=clspath)
        if r == "sat":
            w = regex.model_string(m, clspath)
            return {"verdict": "sat", "model": {"fieldtype": w}, "detail": f"fieldtype() lets {w!r} pass the whitelist test", "queries": 1, "solver_s": dt}
        if r != "unsat":
            return {"verdict": "unknown", "detail": r, "queries": 1, "solver_s": dt}
        r2, m2, dt2, s2 = _solve([allowed, z3.Not(ok)], var=clspath)
        if r2 == "sat":
            w = regex.model_string(m2, clspath)
            return {"verdict": "sat", "model": {"fieldtype": w, "refused": True}, "detail": f"fieldtype() refuses the whitelisted name {w!r}", "queries": 2, "solver_s": dt + dt2}
        if r2 != "unsat":
            return {"verdict": "unknown", "detail": r2, "queries": 2, "solver_s": dt + dt2}
        # concretely for the whitelisted strings: the class returned is the one at flow.record.fieldtypes.<w>
        import importlib

        checked = 0
        for w in WHITELIST:
            ns, _, cls = w.rpartition(".")
            modw = importlib.import_module("flow.record.fieldtypes" + ("." + ns if ns else ""))
            got = B.fieldtype(w)
            if got is not getattr(modw, cls) or not issubclass(got, B.FieldType):
                return {"verdict": "sat", "model": {"fieldtype": w}, "detail": f"fieldtype({w!r}) resolves to {got!r}", "queries": 2, "solver_s": dt + dt2}
            lst = B.fieldtype(w + "[]")
            if lst.__type__ is not got or not issubclass(lst, B.FieldType):
                return {"verdict": "sat", "model": {"fieldtype": w + "[]"}, "detail": f"fieldtype({w + '[]'!r}) has element type {lst.__type__!r}", "queries": 2, "solver_s": dt + dt2}
            checked += 2
        cc = [cross_check_cvc5(s, "unsat"), cross_check_cvc5(s2, "unsat")]
        return {"verdict": "unsat", "detail": f"passing the guard <=> whitelisted (+[]), unbounded strings; {checked} resolutions checked concretely; cvc5: {cc}", "queries": 2, "solver_s": dt + dt2, "validated": checked}
    except Untranslatable as e:
        return {"verdict": "unknown", "detail": f"untranslatable: {e}", "queries": 0, "solver_s": 0.0}


# ------------------------------------------------------------------------------------------------ channels / payloads
HOSTILE_FIELD_NAMES = [
    'x=__import__("os").system("touch {trip}")', "a b", "a,b", "a=1", "a:int", "a;b", "a(b)", "a\nb", "a\n", "\na", "a\tb", "a.b", "a-b", "a/b", "1a", "", "_a", "__init__", "__slots__",
    "nаme", "hοst", "café", "ｐath", "ﬁle", "xª", "size٠", "a​", "a\x00b", "a'", 'a"', "a\\", "a" * 5 + "\r", "lambda: 1", "a)", "*a", "**a", "a=None, b",
    "_source", "_version", "a\n\n", "A" * 300 + " ",
]
HOSTILE_TYPE_NAMES = ["t/", "/t", "t//x", "t x", "t\n", "t/x\n", "t\nx", "1t", "t-x", "t.x", "", "t/1x", 'x");__import__("os").system("touch {trip}")#', "t/а", "t()", "t=1", "class", "t/x y", "a" * 200 + "!"]
HOSTILE_FIELD_TYPES = ["os.system", "string[][]", "string][]", "uint32[[]", "net.ipaddress]][]", "String", "string ", " string", "string\n", "str", "builtins.eval", "__import__", "net", "net.", ".string",
                       "net.ipv4", "flow.record.fieldtypes.string", "string[]x", "[]", "string[1]", "typedlist", "FieldType", "record[][]", "os", "sys.exit", "string;", "varint\x00"]
VALID_DEFS = [
    ("test/ok", [("string", "a"), ("varint", "b")]),
    ("ok", [("string[]", "class"), ("net.ipaddress", "from"), ("uint16", "x1_y")]),
    ("a/b/c_d", []),
    ("T9/x", [("record", "r"), ("record[]", "rs"), ("dynamic", "d")]),
]


def _channels(name, fields):
    """Deliver one definition through the four channels; returns {channel: 'accepted' | 'refused:<Exc>'}."""
    import warnings

    from flow.record import RecordDescriptor
    from flow.record.jsonpacker import JsonRecordPacker
    from flow.record.stream import RecordStreamReader

    out = {}

    def attempt(label, f):
        try:
            with warnings.catch_warnings():
                warnings.simplefilter("ignore")
                d = f()
            out[label] = ("accepted", d)
        except BaseException as e:  # noqa: BLE001 - SystemExit etc. would also be a refusal of sorts, but is recorded
            out[label] = ("refused:" + type(e).__name__, None)

    attempt("constructor", lambda: RecordDescriptor(name, [tuple(f) for f in fields]))

    def via_stream():
        data = wire.encode_stream([wire.Desc(name, fields)])
        rd = RecordStreamReader(io.BytesIO(data))
        list(rd)
        d = [v for v in rd.packer.descriptors.values()]
        if not d:
            raise LookupError("descriptor frame was not registered")
        return d[0]

    attempt("stream frame", via_stream)

    def via_json():
        p = JsonRecordPacker()
        d = p.unpack(json.dumps({"_type": "recorddescriptor", "_data": [name, [list(f) for f in fields]]}))
        if not hasattr(d, "recordType"):
            raise LookupError("not a descriptor")
        return d

    attempt("json line", via_json)

    def via_avro():
        from flow.record.adapter.avro import schema_to_descriptor

        return schema_to_descriptor({"type": "record", "name": "x", "doc": json.dumps([name, [list(f) for f in fields]]), "fields": []})

    if fields:
        attempt("avro schema", via_avro)
    return out


class ExecCapture:
    """Shadows flow.record.base.exec: records the source text handed to exec (and still executes it)."""

    def __enter__(self):
        import builtins

        import flow.record.base as B

        self.B = B
        self.sources = []

        def recording_exec(code, *a, **k):
            self.sources.append(code)
            return builtins.exec(code, *a, **k)

        B.exec = recording_exec
        B._generate_record_class.cache_clear()
        return self

    def __exit__(self, *exc):
        del self.B.exec
        return False


def _identifiers(src):
    names = set()
    for node in ast.walk(ast.parse(src)):
        if isinstance(node, ast.Name):
            names.add(node.id)
        elif isinstance(node, ast.arg):
            names.add(node.arg)
        elif isinstance(node, ast.Attribute):
            names.add(node.attr)
        elif isinstance(node, (ast.ClassDef, ast.FunctionDef)):
            names.add(node.name)
        elif isinstance(node, ast.keyword) and node.arg:
            names.add(node.arg)
    return names


TEMPLATE_IDENTIFIERS = {"Record", "_desc", "_field_types", "__slots__", "__init__", "__self", "_unpack", "__cls", "classmethod", "type", "default", "None", "RECORD_VERSION", "_utcnow",
                        "_zip_longest", "args", "kwargs", "k", "v", "f", "setattr", "get", "values", "dict", "_generated", "_version", "_source", "_classification"}


def _namespace_types():
    """every proper dotted prefix of a whitelisted type name (a namespace, not a type), attributes of the field-type modules that are
    not whitelisted, each also in list form; all whitelisted names are resolved first so that their sub-modules are imported"""
    import flow.record.fieldtypes as FTM
    from flow.record.base import fieldtype
    from flow.record.whitelist import WHITELIST

    for w in WHITELIST:
        try:
            fieldtype(w)
            fieldtype(w + "[]")
        except Exception:  # noqa: BLE001
            pass
    names = set()
    for w in WHITELIST:
        parts = w.split(".")
        for k in range(1, len(parts)):
            names.add(".".join(parts[:k]))
    for attr in ("FieldType", "typedlist", "net.ip", "net.ipv4.addr_long", "os", "re", "warnings", "binascii", "net.ipv4.struct", "_dt", "datetime.datetime", "path.from_posix"):
        names.add(attr)
    names -= set(WHITELIST)
    out = []
    for n in sorted(names):
        out += [n, n + "[]"]
    assert all(hasattr(FTM, n.split(".")[0]) or True for n in out)
    return out


def payload_battery():
    """Concrete side condition: every hostile payload is refused in all four channels without side effects; valid definitions
    are accepted with exactly the declared fields + reserved fields; the text handed to exec mentions only validated names."""
    from flow.record.base import RESERVED_FIELDS

    probs = []
    n = 0
    with tempdir() as d:
        trip = os.path.join(d, "tripwire")
        with ExecCapture() as cap:
            cases = [("field name", "test/x", [("string", fn.replace("{trip}", trip))]) for fn in HOSTILE_FIELD_NAMES]
            cases += [("type name", tn.replace("{trip}", trip), [("string", "a")]) for tn in HOSTILE_TYPE_NAMES]
            cases += [("field type", "test/x", [(ft, "a")]) for ft in HOSTILE_FIELD_TYPES + _namespace_types()]
            # combinations with a keyword field (other class template) and with the same name without the newline
            # reserved and underscore names AFTER a keyword field name (the keyword selects the other class template)
            for kw_ in ("from", "class", "None"):
                for bad_ in ("_source", "_classification", "_generated", "_version", "_x", "__init__"):
                    cases.append(("field name", "test/x", [("string", kw_), ("string", bad_)]))
                    cases.append(("field name", "test/x", [("string", "a"), ("string", kw_), ("uint32", bad_), ("string", "b")]))
            # a field name declared twice: the record could not have "exactly the declared fields"
            cases += [("field list", "test/x", [("string", "a"), ("varint", "a")]), ("field list", "test/x", [("string", "a"), ("string", "b"), ("string", "a")]), ("field list", "test/x", [("string", "class"), ("uint16", "class")])]
            cases += [("field name", "test/x", [("string", "class"), ("string", "a\n")]), ("field name", "test/x", [("string", "a"), ("string", "a\n")]), ("type name", "test/x\n", [("string", "class")])]
            for kind, name, fields in cases:
                n += 1
                before = len(cap.sources)
                res = _channels(name, fields)
                for ch, (verdict, dsc) in res.items():
                    if verdict == "accepted":
                        probs.append(f"hostile {kind} {name!r} {fields!r} accepted through {ch}")
                if os.path.exists(trip):
                    probs.append(f"tripwire fired for {kind} {name!r} {fields!r}")
                    os.unlink(trip)
                for src in cap.sources[before:]:
                    hostile_text = fields[0][1] if kind == "field name" else name
                    if kind != "field type" and any(tok in src for tok in ("__import__", "system(")):
                        probs.append(f"text of a hostile {kind} reached exec: {src[:80]!r}")
            for name, fields in VALID_DEFS:
                n += 1
                before = len(cap.sources)
                res = _channels(name, fields)
                for ch, (verdict, dsc) in res.items():
                    if verdict != "accepted":
                        probs.append(f"valid definition {name!r} refused through {ch}: {verdict}")
                        continue
                    slots = tuple(dsc.recordType.__slots__)
                    want = tuple(f for _, f in fields) + tuple(RESERVED_FIELDS)
                    if slots != want or dsc.name != name or tuple(map(tuple, dsc.get_field_tuples())) != tuple(map(tuple, fields)):
                        probs.append(f"{name!r} through {ch}: fields {slots}, declared {want}")
                allowed = TEMPLATE_IDENTIFIERS | {f for _, f in fields} | {"_field_" + f for _, f in fields} | {"_field_" + f for f in RESERVED_FIELDS} | {name.replace("/", "_")}
                for src in cap.sources[before:]:
                    extra = _identifiers(src) - allowed
                    if extra:
                        probs.append(f"exec'd class source for {name!r} contains identifiers that are not validated names: {sorted(extra)[:5]}")
    return {"ok": not probs, "detail": "; ".join(probs[:4]) or f"{n} definitions x 4 channels", "cex": {"problems": probs[:400]}}


def _solve_shadow(kind, timeout_ms=60000):
    """valid field list A and a definition B that is NOT acceptable, with the same descriptor identifier input (generated from the AST
    of calc_descriptor_hash and the live name regex / whitelist). kind: which rule B breaks."""
    import time

    import flow.record.base as B_
    from flow.record.whitelist import WHITELIST
    from vf.smt import regex
    from vf.smt.kse import Encoded, Evaluator, Untranslatable, get_function_ast

    fn, mod, _ = get_function_ast("flow.record.base:RecordDescriptor.calc_descriptor_hash")
    name_rx = regex.to_z3(B_.RE_VALID_FIELD_NAME, "match")
    types = list(WHITELIST) + [t + "[]" for t in WHITELIST]
    name = z3.StringVal("t/x")
    lists, terms, cons = [], [], []
    for side, n in (("A", 1), ("B", 1 if kind == "type" else 2)):
        fields = tuple((z3.String(f"{side}t{i}"), z3.String(f"{side}n{i}")) for i in range(n))
        ev = Evaluator(mod, width=64)
        list(ev.run(list(fn.body), {"name": name, "fields": fields}, []))
        if len(ev.hashes) != 1 or not isinstance(ev.hashes[0].arg, Encoded):
            raise Untranslatable("hash input not found")
        terms.append(ev.hashes[0].arg.term)
        lists.append(fields)
    (at, an), = lists[0]
    cons += [z3.Or(*[at == z3.StringVal(x) for x in types]), z3.InRe(an, name_rx), z3.Length(an) <= 12, z3.Not(z3.PrefixOf(z3.StringVal("_"), an)), z3.Not(z3.SuffixOf(z3.StringVal("\n"), an))]
    lower = z3.Plus(z3.Range("a", "z"))
    bt, bn = lists[1][0]
    if kind == "type":  # a field type that is not on the whitelist
        cons += [z3.InRe(bt, lower), z3.Length(bt) >= 2, z3.And(*[bt != z3.StringVal(x) for x in types]), z3.InRe(bn, name_rx), z3.Not(z3.PrefixOf(z3.StringVal("_"), bn))]
    elif kind == "underscore":  # a second field whose name starts with an underscore
        bt1, bn1 = lists[1][1]
        cons += [z3.Or(*[bt == z3.StringVal(x) for x in types]), z3.InRe(bn, name_rx), z3.Not(z3.PrefixOf(z3.StringVal("_"), bn)), z3.Or(*[bt1 == z3.StringVal(x) for x in types]),
                 z3.InRe(bn1, z3.Concat(z3.Re("_"), lower))]
    else:  # "split": two fields, the second with an empty type
        bt1, bn1 = lists[1][1]
        cons += [z3.Or(*[bt == z3.StringVal(x) for x in types]), z3.InRe(bn, name_rx), z3.Not(z3.PrefixOf(z3.StringVal("_"), bn)), bt1 == z3.StringVal(""), z3.InRe(bn1, lower)]
    sol = z3.Solver()
    sol.set("timeout", timeout_ms)
    sol.add(*cons)
    sol.add(terms[0] == terms[1])
    t = time.perf_counter()
    r = str(sol.check())
    dt = time.perf_counter() - t
    if r != "sat":
        return r, None, dt
    m = sol.model()
    return r, tuple([(regex.model_string(m, t_), regex.model_string(m, n_)) for t_, n_ in fl] for fl in lists), dt


def _deliver_shadowed(a_fields, b_fields):
    """legitimate definition first, then the unacceptable one with the same identifier, through the stream and the JSON channel:
    -> list of channels that ACCEPTED the second definition"""
    import datetime as _dt
    import warnings

    from flow.record import RecordDescriptor
    from flow.record.jsonpacker import JsonRecordPacker
    from flow.record.stream import RecordStreamReader

    gen = _dt.datetime(2020, 1, 1, tzinfo=_dt.timezone.utc)
    accepted = []
    a_vals = tuple("v" for _ in a_fields) + (None, None, gen, 1)
    b_vals = tuple("v" for _ in b_fields) + (None, None, gen, 1)
    frames = [wire.Desc("t/x", a_fields), wire.Rec("t/x", a_fields, a_vals), wire.Desc("t/x", b_fields), wire.Rec("t/x", b_fields, b_vals)]
    with warnings.catch_warnings():
        warnings.simplefilter("ignore")
        try:
            got = list(RecordStreamReader(io.BytesIO(wire.encode_stream(frames))))
            accepted.append(f"stream frame ({len(got)} records read without an error)")
        except Exception:  # noqa: BLE001 - refused
            pass
        try:
            pk = JsonRecordPacker()
            pk.unpack(json.dumps({"_type": "recorddescriptor", "_data": ["t/x", [list(f) for f in a_fields]]}))
            d = pk.unpack(json.dumps({"_type": "recorddescriptor", "_data": ["t/x", [list(f) for f in b_fields]]}))
            accepted.append(f"json line (resolved to {getattr(d, 'name', d)!r})")
        except Exception:  # noqa: BLE001
            pass
    # sanity of the delivery itself: the legitimate definition alone must be readable
    ok = list(RecordStreamReader(io.BytesIO(wire.encode_stream(frames[:2]))))
    if len(ok) != 1:
        raise RuntimeError("delivery harness broken: the legitimate prefix does not read back")
    try:
        RecordDescriptor("t/x", [tuple(f) for f in b_fields])
        raise RuntimeError(f"solver witness {b_fields} is an acceptable definition (query wrong)")
    except RuntimeError:
        raise
    except Exception:  # noqa: BLE001
        pass
    return accepted


def shadowed_definition():
    """SMT + delivery: an unacceptable definition whose identifier coincides with that of a legitimate, already registered descriptor
    must still be refused when it arrives (a reader may not resolve a definition through the identifier alone)."""
    from vf.smt.kse import Untranslatable

    q, st, done = 0, 0.0, []
    for kind in ("type", "underscore", "split"):
        try:
            r, pair, dt = _solve_shadow(kind)
        except Untranslatable as e:
            return {"verdict": "unknown", "detail": f"untranslatable: {e}", "queries": q, "solver_s": st}
        q += 1
        st += dt
        if r == "unsat":
            done.append(f"{kind}: no such pair within the bound")
            continue
        if r != "sat":
            return {"verdict": "unknown", "detail": f"{kind}: {r}", "queries": q, "solver_s": st}
        try:
            acc = _deliver_shadowed(*pair)
        except RuntimeError as e:
            return {"verdict": "error", "detail": str(e), "queries": q, "solver_s": st}
        if acc:
            return {"verdict": "sat", "model": {"legit": [list(f) for f in pair[0]], "hostile": [list(f) for f in pair[1]], "accepted": acc}, "detail": f"{kind}: definition {pair[1]} accepted after {pair[0]} through {acc}", "queries": q, "solver_s": st}
        done.append(f"{kind}: {pair[1]} after {pair[0]} refused")
    return {"verdict": "unsat", "detail": "; ".join(done), "queries": q, "solver_s": st, "validated": len(done)}


def obligations(tier, seed):
    return [
        ob("O5-shadowed-definition", "smt", "shadowed_definition", {}, timeout=240, bounds="1 legitimate field (name <= 12 chars) vs 1-2 crafted fields with the same identifier input; 3 kinds of unacceptable definition"),
        ob("O1-field-names", "smt", "field_names", {}, timeout=240, bounds="all strings"),
        ob("O1-type-names", "smt", "type_names", {}, timeout=240, bounds="all strings"),
        ob("O3-fieldtype-guard", "smt", "fieldtype_guard", {}, timeout=240, bounds="all strings"),
        ob("side/payload-battery", "side", "payload_battery", {}),
    ]


def replay(res):
    gid = res["id"]
    m = (res.get("cex") or {}).get("kw") or {}
    if res["kind"] == "side":
        out = payload_battery()
        probs = out["cex"]["problems"] if not out["ok"] else []
        dup = [p_ for p_ in probs if p_.startswith("hostile field list")]
        if probs and len(dup) == len(probs):
            # only the duplicate-field-name cases are accepted: the recorded finding K5, any other problem keeps the general key
            return {"reproduced": True, "key": "C06/duplicate-field-names", "what": "; ".join(dup[:2]), "input": out["cex"]}
        return {"reproduced": not out["ok"], "key": "C06/payloads", "what": "; ".join([p_ for p_ in probs if p_ not in dup][:4]) or out["detail"], "input": out["cex"]}
    if "shadowed" in gid:
        acc = _deliver_shadowed([tuple(f) for f in m.get("legit", [])], [tuple(f) for f in m.get("hostile", [])]) if m.get("hostile") else []
        return {"reproduced": bool(acc), "key": "C06/shadowed-definition", "what": f"the unacceptable definition {m.get('hostile')} is accepted through {acc} when it arrives after the legitimate {m.get('legit')} (same descriptor identifier)", "input": m}
    # solver witnesses: deliver them through the four channels
    if m.get("refused"):
        from flow.record import RecordDescriptor

        try:
            if "name" in m:
                RecordDescriptor("test/x", [("string", m["name"])])
            elif "typename" in m:
                RecordDescriptor(m["typename"], [("string", "a")])
            else:
                RecordDescriptor("test/x", [(m["fieldtype"], "a")])
            return {"reproduced": False, "what": "the valid definition is accepted by the constructor"}
        except Exception as e:  # noqa: BLE001
            return {"reproduced": True, "key": f"C06/refuses-valid/{gid}", "what": f"a valid definition is refused: {m} ({type(e).__name__}: {e})", "input": m}
    if "name" in m:
        case = ("test/x", [("string", m["name"])])
    elif "typename" in m:
        case = (m["typename"], [("string", "a")])
    elif "fieldtype" in m:
        case = ("test/x", [(m["fieldtype"], "a")])
    else:
        out = payload_battery()
        return {"reproduced": not out["ok"], "key": "C06/payloads", "what": out["detail"], "input": out["cex"]}
    res_ch = _channels(*case)
    acc = [ch for ch, (v, _) in res_ch.items() if v == "accepted"]
    if acc:
        return {"reproduced": True, "key": f"C06/accepts/{gid.split('/')[1]}", "what": f"definition {case!r} is accepted through {acc} although it is outside the validated language", "input": {"definition": repr(case)}}
    out = payload_battery()
    return {"reproduced": not out["ok"], "key": "C06/payloads", "what": out["detail"], "input": out["cex"]}
