"""C11 - compression and container format are detected transparently (dispatch only).

O1 open_stream: symbolic leading bytes (<= 6) and symbolic 'has a peek() method': the decompressor chosen equals the
   reference decision table and wraps the object that was peeked.
O2 find_adapter_for_stream: the if/elif/return chain translated from the AST with the live magic constants, peeked bytes as a
   z3 string over code points 0..255 (<= 64 bytes): avro / stream / none exactly as specified (SMT).
   RecordAdapter(fileobj=...) turns 'none' into RecordAdapterNotFound (XH over the outcomes).
O3 open_path: suffix x mode x clobber/exists x stdin/stdout naming with stand-in openers: opener and mode as in the table,
   every binary read falls through to open_stream (codec recognised from the leading bytes whatever the name).
O4 RecordAdapter URL dispatch: extension / scheme / sub-adapter table.
"""
import io
import os
import types

import z3

from harness.common import cex_args, mk, tempdir

PROPERTY = "C11"
FUNCTIONS = [
    "flow.record.base:open_stream",
    "flow.record.base:find_adapter_for_stream",
    "flow.record.stream:RecordStreamReader.readheader",
    "flow.record.base:open_path_or_stream",
    "flow.record.base:open_path",
    "flow.record.base:RecordAdapter",
]
BOUNDS = {
    "codec sniffing": "all leading byte strings of <= 6 bytes x file object with/without peek()",
    "container": "all peeked byte strings of <= 64 bytes",
    "open_path (SMT)": "ALL path strings <= 40 chars x 5 modes x clobber x target exists or not (translated from the AST, environment calls opaque)",
    "open_path": "10 suffixes x 5 modes x clobber x exists x 4 ways of naming stdio",
    "urls": "table of 30 URL spellings x reader/writer",
    "interleaved writers": "two writers open at the same time, 6 x 6 codec pairs x all 2^4 schedules of 4 writes (real codecs)",
}
STUBS = ["decompressor constructors (gzip.GzipFile, bz2.BZ2File, lz4.open, zstd (de)compressor) return tagging stand-ins", "io.open / io.BufferedReader / stdin / stdout stand-ins", "importlib.import_module returns a module of recording adapter classes (O4)"]
OUTSIDE = ["that a standard decompressor accepts the file and the record content after decompression (the codecs are C libraries)"]
ASSUMPTIONS = ["reference decision table: gzip 1f 8b, bzip2 'BZh', lz4 04 22 4d 18, zstd 28 b5 2f fd, else raw; avro iff the first three bytes are 'Obj'; stream iff the 13-byte magic occurs in the first 19 bytes"]

ob = mk("harness.C11", PROPERTY)


class Tag:
    def __init__(self, kind, fp, mode=None):
        self.kind = kind
        self.fp = fp
        self.mode = mode

    def peek(self, n):
        return self.fp.peek(n)


class PeekFP:
    def __init__(self, data):
        self.data = data
        self.peeked = 0

    def peek(self, n):
        self.peeked += 1
        return self.data


class RawFP:
    """binary file object without peek()"""

    def __init__(self, data):
        self.data = data


class Buffered:
    def __init__(self, raw):
        self.raw = raw

    def peek(self, n):
        return self.raw.data


def _install(B):
    saved = {k: getattr(B, k, None) for k in ("gzip", "bz2", "lz4", "zstd", "io")}

    class Z:
        class ZstdDecompressor:
            def stream_reader(self, fp):
                return Tag("zstd", fp)

        class ZstdCompressor:
            def stream_writer(self, fp):
                return Tag("zstd-w", fp)

    B.gzip = types.SimpleNamespace(GzipFile=lambda *a, **k: Tag("gzip", k.get("fileobj", a[0] if a else None), k.get("mode", a[1] if len(a) > 1 else None)))
    B.bz2 = types.SimpleNamespace(BZ2File=lambda fp, mode=None: Tag("bz2", fp, mode))
    B.lz4 = types.SimpleNamespace(open=lambda fp, mode=None: Tag("lz4", fp, mode))
    B.zstd = Z
    B.io = types.SimpleNamespace(BufferedReader=Buffered, IOBase=io.IOBase, open=lambda p, mode: Tag("plain", p, mode))
    return saved


def _restore(B, saved):
    for k, v in saved.items():
        setattr(B, k, v)


def spec_codec(data):
    if data[:2] == b"\x1f\x8b":
        return "gzip"
    if data[:3] == b"BZh":
        return "bz2"
    if data[:4] == b"\x04\x22\x4d\x18":
        return "lz4"
    if data[:4] == b"\x28\xb5\x2f\xfd":
        return "zstd"
    return "raw"


def sniff():
    import flow.record.base as B

    def check(data: bytes, has_peek: bool, write: bool) -> bool:
        """
        post: _
        """
        if len(data) > 6:
            return True
        saved = _install(B)
        try:
            fp = PeekFP(data) if has_peek else RawFP(data)
            out = B.open_stream(fp, "wb" if write else "rb")
        finally:
            _restore(B, saved)
        if write:
            return out is fp
        want = spec_codec(data)
        if want == "raw":
            # a peekable object that yields the same bytes: the original or the buffered wrapper around it
            return (out is fp) if has_peek else (isinstance(out, Buffered) and out.raw is fp)
        if not (isinstance(out, Tag) and out.kind == want):
            return False
        inner = out.fp
        # the decompressor must read from the object that still has the peeked bytes
        return (inner is fp) if has_peek else (isinstance(inner, Buffered) and inner.raw is fp)

    return check


def container():
    """SMT: find_adapter_for_stream's decision chain, translated from the AST."""
    import flow.record.base as B
    from vf.smt import regex
    from vf.smt.kse import Evaluator, Untranslatable, cross_check_cvc5, get_function_ast

    try:
        fn, mod, _ = get_function_ast("flow.record.base:find_adapter_for_stream")
        data = z3.String("peek")

        class FP:
            def peek(self, n):
                return data

        class NoPeek:
            pass

        class Wrapped:  # stand-in for io.BufferedReader: the object through which the peeked bytes stay readable
            def __init__(self, raw, *a, **k):
                self.raw = raw

            def peek(self, n):
                return data

        ev = Evaluator(mod, width=64)
        fpobj = FP()
        outs = list(ev.run(list(fn.body), {"fp": fpobj}, []))
        # the object handed on to the adapter: the peekable input itself, or - for an input without peek() - the buffered wrapper
        # around it, on every path (an adapter given the bare decompressor could not re-read the peeked bytes, or refuses it)
        raw = NoPeek()
        fake_io = types.SimpleNamespace(**{k: getattr(io, k) for k in dir(io) if not k.startswith("_")})
        fake_io.BufferedReader = Wrapped
        outs_np = list(Evaluator(mod, width=64).run(list(fn.body), {"fp": raw, "io": fake_io}, []))
        for which, oo in (("peekable", outs), ("no-peek", outs_np)):
            for o in oo:
                if o.kind != "return" or not (isinstance(o.value, tuple) and len(o.value) == 2):
                    raise Untranslatable(f"path ends with {o.kind}")
                s0 = z3.Solver()
                s0.set("timeout", 60000)
                s0.add(z3.Length(data) <= 64, *o.pc)
                r0 = str(s0.check())
                if r0 == "unsat":
                    continue
                if r0 != "sat":
                    return {"verdict": "unknown", "detail": r0, "queries": 1, "solver_s": 0.0}
                got = o.value[0]
                good = (got is fpobj) if which == "peekable" else (isinstance(got, Wrapped) and got.raw is raw)
                if not good:
                    w = regex.model_string(s0.model(), data)
                    return {"verdict": "sat", "model": {"peek": w.encode("latin-1", "replace").hex(), "adapter": o.value[1], "input": which}, "detail": f"for a {which} input and adapter {o.value[1]!r} the stream handed on is {type(got).__name__}, not the object the leading bytes were peeked through", "queries": 1, "solver_s": 0.0}
        magic = z3.StringVal("".join(chr(c) for c in B.RECORDSTREAM_MAGIC))
        first19 = z3.SubString(data, 0, z3.If(z3.Length(data) < 19, z3.Length(data), z3.IntVal(19)))
        spec = z3.If(z3.PrefixOf(z3.StringVal("Obj"), data), z3.StringVal("avro"), z3.If(z3.Contains(first19, magic), z3.StringVal("stream"), z3.StringVal("none")))
        q = 0
        st = 0.0
        crossed = []
        validated = 0
        for o in outs:
            if o.kind != "return" or not (isinstance(o.value, tuple) and len(o.value) == 2):
                raise Untranslatable(f"path ends with {o.kind}")
            res = o.value[1]
            if not (res is None or isinstance(res, str)):
                raise Untranslatable("adapter name is not a constant")
            import time

            s = z3.Solver()
            s.set("timeout", 60000)
            s.add(z3.Length(data) <= 64)
            s.add(*o.pc)
            t = time.perf_counter()
            feas = str(s.check())
            st += time.perf_counter() - t
            q += 1
            if feas == "sat":
                # translator validation on a solver-drawn input of this path
                w = regex.model_string(s.model(), data)
                try:
                    rawbytes = w.encode("latin-1")
                    got = B.find_adapter_for_stream(io.BufferedReader(io.BytesIO(rawbytes)))[1]
                    if got != res:
                        return {"verdict": "error", "detail": f"translation predicts {res!r} for {rawbytes!r}, real function returns {got!r}", "queries": q, "solver_s": st}
                    validated += 1
                except UnicodeEncodeError:
                    pass
            s.add(spec != z3.StringVal(res if res else "none"))
            for i in range(64):
                pass
            t = time.perf_counter()
            r = str(s.check())
            st += time.perf_counter() - t
            q += 1
            if r == "sat":
                w = regex.model_string(s.model(), data)
                return {"verdict": "sat", "model": {"peek": w.encode("latin-1", "replace").hex(), "adapter": res}, "detail": f"adapter {res!r} chosen for bytes that the format table maps elsewhere", "queries": q, "solver_s": st}
            if r != "unsat":
                return {"verdict": "unknown", "detail": r, "queries": q, "solver_s": st}
            crossed.append(cross_check_cvc5(s, "unsat"))
        if not B.HAS_AVRO:
            return {"verdict": "unknown", "detail": "fastavro not importable: the avro branch is disabled in this environment", "queries": q, "solver_s": st}
        return {"verdict": "unsat", "detail": f"{len(outs)} paths equal the decision table for all <= 64-byte prefixes; cvc5: {sorted(set(crossed))}", "queries": q, "solver_s": st, "validated": validated}
    except Untranslatable as e:
        return {"verdict": "unknown", "detail": f"untranslatable: {e}", "queries": 0, "solver_s": 0.0}


def stream_header():
    """SMT: RecordStreamReader.readheader translated from the AST; the bytes handed out by fp.read(n) are a symbolic string h with
    |h| <= n. Accepting must imply that the magic sits where the format puts it (offset 6 of the 19-byte header frame) - or that the
    input ends before 19 bytes right after the magic, in which case nothing follows and no record can come out; the exact header
    frame the format prescribes must be accepted."""
    import time

    import flow.record.base as B
    from vf.smt import regex
    from vf.smt.kse import Evaluator, Untranslatable, cross_check_cvc5, get_function_ast

    try:
        fn, mod, _ = get_function_ast("flow.record.stream:RecordStreamReader.readheader")
        data = z3.String("header")
        asked = []

        class FP:
            def read(self, n=-1):
                asked.append(n)
                return data

        class Self:
            fp = FP()

        ev = Evaluator(mod, width=64)
        outs = list(ev.run(list(fn.body), {"self": Self()}, []))
        if len(set(asked)) != 1 or not isinstance(asked[0], int) or asked[0] <= 0:
            raise Untranslatable(f"header read sizes {asked}")
        n = asked[0]
        magic = "".join(chr(c) for c in B.RECORDSTREAM_MAGIC)
        exact = z3.StringVal("\x00\x00\x00\x0f\xc4\x0d".encode().decode("unicode_escape") + magic)
        at6 = z3.And(z3.Length(data) == 6 + len(magic), z3.SubString(data, 6, len(magic)) == z3.StringVal(magic))
        short = z3.And(z3.Length(data) < n, z3.SuffixOf(z3.StringVal(magic), data))  # the input ends here: no frame can follow
        q, st, crossed, validated = 0, 0.0, [], 0
        for o in outs:
            if o.kind not in ("return", "raise", "fall"):
                raise Untranslatable(f"path ends with {o.kind}")
            kind = "raise" if o.kind == "raise" else "return"
            s = z3.Solver()
            s.set("timeout", 60000)
            s.add(z3.Length(data) <= n)
            s.add(*o.pc)
            t = time.perf_counter()
            feas = str(s.check())
            st += time.perf_counter() - t
            q += 1
            if feas == "sat":
                w = regex.model_string(s.model(), data)
                try:
                    raw = w.encode("latin-1")
                    from flow.record.stream import RecordStreamReader

                    try:
                        RecordStreamReader(io.BytesIO(raw))
                        got = "return"
                    except OSError:
                        got = "raise"
                    if got != kind:
                        return {"verdict": "error", "detail": f"translation predicts {kind} for header {raw!r}, the real reader does {got}", "queries": q, "solver_s": st}
                    validated += 1
                except UnicodeEncodeError:
                    pass
            if kind == "return":
                s.add(z3.Not(z3.Or(at6, short)))
                what = "accepted although the magic is not at offset 6 of the header frame"
            else:
                s.add(data == exact)
                what = "the header frame the format prescribes is refused"
            t = time.perf_counter()
            r = str(s.check())
            st += time.perf_counter() - t
            q += 1
            if r == "sat":
                w = regex.model_string(s.model(), data)
                return {"verdict": "sat", "model": {"header": w.encode("latin-1", "replace").hex(), "outcome": kind}, "detail": what, "queries": q, "solver_s": st}
            if r != "unsat":
                return {"verdict": "unknown", "detail": r, "queries": q, "solver_s": st}
            crossed.append(cross_check_cvc5(s, "unsat"))
        return {"verdict": "unsat", "detail": f"{len(outs)} paths: accepted => magic at offset 6 (or input ends right after the magic); the prescribed header is accepted; read size {n}; cvc5: {sorted(set(crossed))}", "queries": q, "solver_s": st, "validated": validated}
    except Untranslatable as e:
        return {"verdict": "unknown", "detail": f"untranslatable: {e}", "queries": 0, "solver_s": 0.0}


class _Opaque:
    """environment stand-in for the SMT translation of open_path: every call returns a tag ('name', args...) and accepts terms"""

    _kse_opaque = True

    def __init__(self, name, exists=None):
        self._name = name
        self._exists = exists

    def __getattr__(self, attr):
        if attr.startswith("_"):
            raise AttributeError(attr)
        return _Opaque(f"{self._name}.{attr}", self._exists)

    def __call__(self, *a, **k):
        if self._name == "os.path.exists":
            return self._exists
        if not a and not k:
            return _Opaque(self._name, self._exists)  # a context object (ZstdCompressor()): its methods produce the tags
        return (self._name,) + tuple(a) + tuple(sorted(k.items()))

    def __bool__(self):
        return True


def open_path_smt(mode: str, clobber: bool):
    """SMT over ALL path strings: open_path translated from its AST with the codec constructors, open() and the stdio getters as opaque
    stand-ins; 'the target exists' is a free boolean. Each feasible path's result must be the opener the extension table prescribes
    (reads of non-compressed names go through open_stream, i.e. are sniffed)."""
    import time

    import flow.record.base as B
    from vf.smt import regex
    from vf.smt.kse import Evaluator, Untranslatable, cross_check_cvc5, get_function_ast

    try:
        fn, mod, _ = get_function_ast("flow.record.base:open_path")
        path = z3.String("path")
        exists = z3.Bool("exists")
        env = {"path": path, "mode": mode, "clobber": clobber}
        for name in ("gzip", "bz2", "lz4", "zstd", "io", "os", "open", "get_stdout", "get_stdin", "open_stream"):
            env[name] = _Opaque(name, exists)
        ev = Evaluator(mod, width=64)
        outs = list(ev.run(list(fn.body), env, []))
        out_mode = mode in ("w", "wb")
        binary = "b" in mode

        def ends(sfx):
            return z3.SuffixOf(z3.StringVal(sfx), path)

        q, st, crossed, validated = 0, 0.0, [], 0
        for o in outs:
            s = z3.Solver()
            s.set("timeout", 60000)
            s.add(z3.Length(path) <= 40)
            s.add(*o.pc)
            t = time.perf_counter()
            feas = str(s.check())
            st += time.perf_counter() - t
            q += 1
            if feas == "unsat":
                continue
            if feas != "sat":
                return {"verdict": "unknown", "detail": feas, "queries": q, "solver_s": st}
            stdio = z3.Or(path == z3.StringVal(""), path == z3.StringVal("-"))
            if o.kind == "raise":
                # allowed: invalid mode (all paths), or refusing to clobber an existing target
                if mode not in ("r", "rb", "w", "wb"):
                    continue
                ok = z3.And(out_mode, not clobber, exists, z3.Not(stdio)) if ("IOError" in str(o.value) or "OSError" in str(o.value)) else z3.BoolVal(False)
                s.add(z3.Not(ok))
                what = f"raises {o.value} for a path/mode the table opens"
            else:
                v = o.value
                tag = v[0] if isinstance(v, tuple) and v else None
                # what the extension table prescribes, as a condition on the path for THIS outcome's opener
                inner = v[1][0] if tag == "open_stream" and isinstance(v[1], tuple) else None
                zst = z3.Or(ends(".zst"), ends(".zstd"))
                plain = z3.Not(z3.Or(ends(".gz"), ends(".bz2"), ends(".lz4"), zst))
                must_not_raise = z3.Not(z3.And(out_mode, not clobber, exists, z3.Not(stdio)))
                if tag == "gzip.GzipFile":
                    spec = z3.And(ends(".gz"), v[1] is path, v[2] == mode)
                elif tag == "bz2.BZ2File":
                    spec = z3.And(ends(".bz2"), z3.Not(ends(".gz")), v[1] is path, v[2] == mode)
                elif tag == "lz4.open":
                    spec = z3.And(ends(".lz4"), v[1] is path, v[2] == mode)
                elif tag in ("zstd.ZstdDecompressor.stream_reader", "zstd.ZstdCompressor.stream_writer"):
                    opened = v[1]
                    spec = z3.And(zst, (tag.endswith("stream_writer")) == out_mode, isinstance(opened, tuple) and opened[:1] == ("open",) and opened[1] is path and opened[2] == ("wb" if out_mode else "rb"))
                elif tag == "open_stream":
                    # a binary read of a name that does not reveal the codec: sniffed
                    src_ok = (inner == "io.open" and v[1][1] is path and v[1][2] == mode) or (inner == "get_stdin")
                    spec = z3.And(plain, (not out_mode) and binary and bool(src_ok), stdio if inner == "get_stdin" else z3.Not(stdio), v[2] == mode)
                elif tag == "io.open":
                    spec = z3.And(plain, z3.Not(stdio), (out_mode or not binary), v[1] is path, v[2] == mode)
                elif tag in ("get_stdout", "get_stdin"):
                    spec = z3.And(stdio, (tag == "get_stdout") == out_mode, (out_mode or not binary), dict(v[1:]).get("binary") == binary)
                else:
                    raise Untranslatable(f"unexpected result {v!r}")
                s.add(z3.Not(z3.And(spec, must_not_raise)))
                what = f"opens with {tag} a path the extension table maps elsewhere"
            t = time.perf_counter()
            r = str(s.check())
            st += time.perf_counter() - t
            q += 1
            if r == "sat":
                w = regex.model_string(s.model(), path)
                return {"verdict": "sat", "model": {"path": w, "mode": mode, "clobber": clobber, "exists": bool(z3.is_true(s.model().eval(exists, model_completion=True))), "outcome": str(o.value)[:80]}, "detail": what + f" (path {w!r})", "queries": q, "solver_s": st}
            if r != "unsat":
                return {"verdict": "unknown", "detail": r, "queries": q, "solver_s": st}
            crossed.append(cross_check_cvc5(s, "unsat"))
            validated += 1
        return {"verdict": "unsat", "detail": f"{len(outs)} paths of open_path(mode={mode!r}, clobber={clobber}) agree with the extension table for all path strings <= 40 chars; cvc5: {sorted(set(crossed))}", "queries": q, "solver_s": st, "validated": validated}
    except Untranslatable as e:
        return {"verdict": "unknown", "detail": f"untranslatable: {e}", "queries": 0, "solver_s": 0.0}


def not_found():
    """RecordAdapter(fileobj=...): 'none' becomes RecordAdapterNotFound (with the explanatory text for input starting with '<');
    'avro'/'stream' select the adapter module of that name and hand it the decompressed stream."""
    import flow.record.base as B
    from flow.record.exceptions import RecordAdapterNotFound

    def check(kind: int, lt: bool, selector: bool) -> bool:
        """
        post: _
        """
        if not (0 <= kind <= 2):
            return True
        adapter = [None, "avro", "stream"][0]
        for j, a in enumerate([None, "avro", "stream"]):
            if kind == j:
                adapter = a
        stream_obj = PeekFP(b"<rec" if lt else b"xxxx")
        calls = []

        class Rd:
            def __init__(self, fp, **kw):
                calls.append((fp, kw))

        saved = (B.open_stream, B.find_adapter_for_stream, B.importlib)
        B.open_stream = lambda fp, mode: Tag("opened", fp, mode)
        B.find_adapter_for_stream = lambda fp: (fp, adapter)
        imported = []

        def imp(name):
            imported.append(name)
            return types.SimpleNamespace(AvroReader=Rd, StreamReader=Rd)

        B.importlib = types.SimpleNamespace(import_module=imp)
        try:
            try:
                B.RecordAdapter(fileobj=stream_obj, selector="r.x == 1" if selector else None)
            except RecordAdapterNotFound as e:
                return adapter is None and (("record text" in str(e)) == lt)
        finally:
            B.open_stream, B.find_adapter_for_stream, B.importlib = saved
        if adapter is None:
            return False
        fp, kw = calls[0]
        return imported == ["flow.record.adapter." + adapter] and isinstance(fp, Tag) and fp.fp is stream_obj and fp.mode == "rb" and (kw.get("selector") == "r.x == 1") == selector

    return check


SUFFIXES = [".gz", ".bz2", ".lz4", ".zst", ".zstd", ".records", "", ".gz.x", ".GZ", ".json"]
MODES = ["r", "rb", "w", "wb", "a"]
STDIO = [None, "", "-"]


def path_open():
    import flow.record.base as B

    def check(si: int, mi: int, clobber: bool, exists: bool, stdio: int) -> bool:
        """
        post: _
        """
        if not (0 <= si < len(SUFFIXES) and 0 <= mi < len(MODES) and -1 <= stdio < len(STDIO)):
            return True
        suffix = mode = None
        for j in range(len(SUFFIXES)):
            if si == j:
                suffix = SUFFIXES[j]
        for j in range(len(MODES)):
            if mi == j:
                mode = MODES[j]
        path = "/data/file" + suffix
        for j in range(len(STDIO)):
            if stdio == j:
                path = STDIO[j]
        is_stdio = stdio >= 0
        saved = _install(B)
        saved_extra = (B.os, B.get_stdin, B.get_stdout, B.open_stream, getattr(B, "open", None))
        sniffed = []
        B.os = types.SimpleNamespace(path=types.SimpleNamespace(exists=lambda p: exists))
        B.get_stdin = lambda binary=False: Tag("stdin", None, "b" if binary else "t")
        B.get_stdout = lambda binary=False: Tag("stdout", None, "b" if binary else "t")

        def fake_open_stream(fp, m):
            sniffed.append(fp)
            return Tag("sniffed", fp, m)

        B.open_stream = fake_open_stream
        B.open = lambda p, m="r": Tag("raw-open", p, m)
        try:
            try:
                out = B.open_path(path, mode, clobber)
                err = None
            except (ValueError, IOError, RuntimeError) as e:
                out, err = None, type(e).__name__
        finally:
            _restore(B, saved)
            B.os, B.get_stdin, B.get_stdout, B.open_stream = saved_extra[:4]
            if saved_extra[4] is None:
                del B.open
            else:
                B.open = saved_extra[4]
        # ---- reference table
        if mode not in ("r", "rb", "w", "wb"):
            return err == "ValueError"
        writing = mode in ("w", "wb")
        binary = "b" in mode
        if writing and not is_stdio and not clobber and exists:
            return err in ("OSError", "IOError")
        if err is not None:
            return False
        codec = None
        if not is_stdio:
            codec = {".gz": "gzip", ".bz2": "bz2", ".lz4": "lz4", ".zst": "zstd", ".zstd": "zstd"}.get(suffix)
        if codec:
            if codec == "zstd":
                return isinstance(out, Tag) and out.kind == ("zstd-w" if writing else "zstd") and isinstance(out.fp, Tag) and out.fp.kind == "raw-open" and out.fp.fp == path and out.fp.mode == ("wb" if writing else "rb")
            return isinstance(out, Tag) and out.kind == codec and out.fp == path and out.mode == mode
        # plain file or stdio
        if writing:
            if is_stdio:
                return out.kind == "stdout" and out.mode == ("b" if binary else "t")
            return out.kind == "plain" and out.fp == path and out.mode == mode
        inner = out
        if binary:
            # every binary read is sniffed for a codec, whatever the name - stdin included
            if not (isinstance(out, Tag) and out.kind == "sniffed" and len(sniffed) == 1):
                return False
            inner = out.fp
        elif sniffed:
            return False
        if is_stdio:
            return inner.kind == "stdin" and inner.mode == ("b" if binary else "t")
        return inner.kind == "plain" and inner.fp == path and inner.mode == mode

    return check


URLS = [
    ("out.records", "stream", "out.records"), ("out.records.gz", "stream", "out.records.gz"), ("out.avro", "avro", "out.avro"), ("x.json", "jsonfile", "x.json"), ("x.jsonl", "jsonfile", "x.jsonl"),
    ("x.csv", "csvfile", "x.csv"), ("dir.avro/x", "stream", "dir.avro/x"), ("x.json.gz", "stream", "x.json.gz"), ("noext", "stream", "noext"), ("/abs/path/file.records", "stream", "/abs/path/file.records"),
    ("stream://x.avro", "stream", "x.avro"), ("avro://x.records", "avro", "x.records"), ("jsonfile://out.txt", "jsonfile", "out.txt"), ("csvfile://", "csvfile", ""), ("text://", "text", ""),
    ("line://-", "line", "-"), ("split+jsonfile://out.json", "split", "jsonfile://out.json"), ("split://out.records", "split", "out.records"), ("archive+stream://x", "archive", "stream://x"),
    ("sqlite://db.sqlite", "sqlite", "db.sqlite"), ("jsonfile://x.json?descriptors=false", "jsonfile", "x.json"), ("stream://dir/x.records.gz", "stream", "dir/x.records.gz"),
    ("x.CSV", "stream", "x.CSV"), ("a.b.avro", "avro", "a.b.avro"), (".json", "stream", ".json"), ("xlsx://out.xlsx", "xlsx", "out.xlsx"),
]


def urls():
    import flow.record.base as B

    def check(i: int, out: bool, clobber: bool) -> bool:
        """
        post: _
        """
        if not (0 <= i < len(URLS)):
            return True
        url = adapter = cls_url = None
        for j in range(len(URLS)):
            if i == j:
                url, adapter, cls_url = URLS[j]
        calls = []

        def mkcls(name):
            class A:
                def __init__(self, path, **kw):
                    calls.append((name, path, kw))

            return A

        imported = []

        def imp(name):
            imported.append(name)
            short = name.rsplit(".", 1)[1]
            return types.SimpleNamespace(**{short.title() + "Reader": mkcls("R"), short.title() + "Writer": mkcls("W")})

        saved = B.importlib
        B.importlib = types.SimpleNamespace(import_module=imp)
        try:
            B.RecordAdapter(url, out=out, clobber=clobber)
        finally:
            B.importlib = saved
        if imported != ["flow.record.adapter." + adapter] or len(calls) != 1:
            return False
        kind, path, kw = calls[0]
        ok_kw = (kw.get("clobber") == clobber) if out else ("clobber" not in kw)
        if "?descriptors=false" in url and kw.get("descriptors") != "false":
            return False
        return kind == ("W" if out else "R") and path == cls_url and ok_kw

    return check


def stdin_reader():
    """RecordAdapter for READING standard input, however it is spelled ('-', '', None): the container is taken from the leading
    bytes (find_adapter_for_stream on the sniffed stdin), never from the spelling; writing to the same spellings selects the stream
    adapter on stdout."""
    import flow.record.base as B

    spellings = ["-", "", None]

    def check(sp: int, avro: bool, out: bool, has_selector: bool) -> bool:
        """
        post: _
        """
        if not (0 <= sp < 3):
            return True
        url = "-"
        for j in range(3):
            if sp == j:
                url = spellings[j]
        calls = []
        imported = []
        trace = []

        def mkcls(name):
            class A:
                def __init__(self, path, **kw):
                    calls.append((name, path, kw))

            return A

        def imp(name):
            imported.append(name)
            short = name.rsplit(".", 1)[1]
            return types.SimpleNamespace(**{short.title() + "Reader": mkcls("R"), short.title() + "Writer": mkcls("W")})

        stdin_obj = object()
        sniffed = object()
        detected = object()
        saved = (B.importlib, B.get_stdin, B.open_stream, B.find_adapter_for_stream)
        B.importlib = types.SimpleNamespace(import_module=imp)
        B.get_stdin = lambda binary=False: trace.append(("get_stdin", binary)) or stdin_obj
        B.open_stream = lambda fp, mode: trace.append(("open_stream", fp is stdin_obj, mode)) or sniffed
        B.find_adapter_for_stream = lambda fp: (trace.append(("detect", fp is sniffed)) or (detected, "avro" if avro else "stream"))
        try:
            B.RecordAdapter(url, out=out, selector="r.x == 1" if has_selector else None)
        finally:
            B.importlib, B.get_stdin, B.open_stream, B.find_adapter_for_stream = saved
        if len(calls) != 1:
            return False
        kind, arg, kw = calls[0]
        if out:
            return imported == ["flow.record.adapter.stream"] and kind == "W" and arg == ("-" if url == "-" else "") and not trace
        want_sel = {"selector": "r.x == 1"} if has_selector else {}
        return (imported == ["flow.record.adapter." + ("avro" if avro else "stream")] and kind == "R" and arg is detected and kw == want_sel
                and trace == [("get_stdin", True), ("open_stream", True, "rb"), ("detect", True)])

    return check


EXTS = ["", ".gz", ".bz2", ".lz4", ".zst", ".zstd"]


def interleaved_problem(ext_a, ext_b, schedule):
    """Two writers open at the same time (real codecs, real files), writes interleaved as `schedule` says (False = writer A, True = B):
    each file is accepted by a standard decompressor of its format and reads back as exactly its own records."""
    import bz2
    import gzip

    import lz4.frame
    import zstandard

    from flow.record import RecordDescriptor, RecordReader, RecordWriter

    dec = {"": lambda b: b, ".gz": gzip.decompress, ".bz2": bz2.decompress, ".lz4": lz4.frame.decompress, ".zst": lambda b: zstandard.ZstdDecompressor().decompressobj().decompress(b)}
    dec[".zstd"] = dec[".zst"]
    D = RecordDescriptor("test/il", [("varint", "n"), ("string", "who")])
    with tempdir() as d:
        paths = [f"{d}/a.records{ext_a}", f"{d}/b.records{ext_b}"]
        ws = [RecordWriter(p) for p in paths]
        want = [[], []]
        for i, who in enumerate(schedule):
            k = 1 if who else 0
            ws[k].write(D(i, "ab"[k] * 40))
            want[k].append(i)
        for w in ws:
            w.flush()
        for w in ws:
            w.close()
        for k, (p, ext) in enumerate(zip(paths, (ext_a, ext_b))):
            raw = open(p, "rb").read()
            if want[k]:
                try:
                    plain = dec[ext](raw)
                except Exception as e:  # noqa: BLE001
                    return f"writer {'AB'[k]} (*{ext or 'raw'}): a standard decompressor rejects the file: {type(e).__name__}: {e}"
                if b"RECORDSTREAM" not in plain[:19]:
                    return f"writer {'AB'[k]} (*{ext or 'raw'}): decompressed content is not a record stream"
            try:
                with RecordReader(p) as rd:
                    got = [int(r.n) for r in rd]
            except Exception as e:  # noqa: BLE001
                if not want[k]:
                    continue  # an output without records is C17's subject (known finding K3)
                return f"writer {'AB'[k]} (*{ext or 'raw'}): reading back raised {type(e).__name__}: {e}"
            if got != want[k]:
                return f"writer {'AB'[k]} (*{ext or 'raw'}): read back {got}, written {want[k]}"
    return None


def interleaved_read_problem(ext_a, ext_b, schedule, how):
    """Two sources open for READING at the same time, their records consumed alternately as `schedule` says: each reader yields
    exactly its own records in order (how: 'path' = named with the extension, 'hidden' = a name that hides the codec, 'fileobj')."""
    from flow.record import RecordDescriptor, RecordReader, RecordWriter

    D = RecordDescriptor("test/ilr", [("varint", "n"), ("string", "who")])
    with tempdir() as d:
        paths = []
        want = [[], []]
        for k, ext in enumerate((ext_a, ext_b)):
            p = f"{d}/{'ab'[k]}.records{ext}"
            w = RecordWriter(p)
            for i in range(4):
                w.write(D(10 * k + i, "ab"[k] * 30))
                want[k].append(10 * k + i)
            w.flush()
            w.close()
            if how != "path":
                q = f"{d}/hidden-{'ab'[k]}.bin"
                os.rename(p, q)
                p = q
            paths.append(p)
        try:
            if how == "fileobj":
                rds = [RecordReader(fileobj=open(p, "rb")) for p in paths]
            elif how == "hidden":
                rds = [RecordReader("stream://" + p) for p in paths]
            else:
                rds = [RecordReader(p) for p in paths]
            its = [iter(r) for r in rds]
            got = [[], []]
            for who in schedule:
                k = 1 if who else 0
                got[k].append(int(next(its[k]).n))
            for k in (0, 1):
                got[k] += [int(r.n) for r in its[k]]
            for r in rds:
                r.close()
        except Exception as e:  # noqa: BLE001
            return f"reading two open sources (*{ext_a or 'raw'}, *{ext_b or 'raw'}, {how}) alternately raised {type(e).__name__}: {e}"
        if got != want:
            return f"two open sources (*{ext_a or 'raw'}, *{ext_b or 'raw'}, {how}) read alternately: got {got}, written {want}"
    return None


def interleaved_read(ea: int):
    from crosshair.tracers import NoTracing

    hows = ["path", "hidden", "fileobj"]

    def check(eb: int, h: int, s0: bool, s1: bool, s2: bool) -> bool:
        """
        post: _
        """
        if not (0 <= eb < len(EXTS) and 0 <= h < 3):
            return True
        ext_b = how = None
        for j in range(len(EXTS)):
            if eb == j:
                ext_b = EXTS[j]
        for j in range(3):
            if h == j:
                how = hows[j]
        sched = [bool(s0), bool(s1), bool(s2)]
        with NoTracing():
            return interleaved_read_problem(EXTS[ea], ext_b, sched, how) is None

    return check


def interleaved(ea: int, k: int = 4):
    """Path-exhaustive over (codec of the second writer, schedule of k writes): the concrete part runs real codecs untraced."""
    from crosshair.tracers import NoTracing

    def check(eb: int, s0: bool, s1: bool, s2: bool, s3: bool, s4: bool, s5: bool) -> bool:
        """
        post: _
        """
        if not (0 <= eb < len(EXTS)):
            return True
        if k < 6 and (s4 or s5):
            return True
        ext_b = None
        for j in range(len(EXTS)):
            if eb == j:
                ext_b = EXTS[j]
        sched = [bool(s0), bool(s1), bool(s2), bool(s3), bool(s4), bool(s5)][:k]
        with NoTracing():
            return interleaved_problem(EXTS[ea], ext_b, sched) is None

    return check


def obligations(tier, seed):
    to = 60 if tier == "quick" else 240
    return [
        ob("O1-sniff", "xh", "sniff", {}, timeout=to, bounds="all byte strings <= 6 bytes, peek()/no peek(), read/write"),
        ob("O2-container", "smt", "container", {}, timeout=240, bounds="all peeked byte strings <= 64 bytes"),
        ob("O2-stream-header", "smt", "stream_header", {}, timeout=240, bounds="all byte strings a header read can return (<= 19 bytes)"),
        ob("O2-not-found", "xh", "not_found", {}, timeout=to, bounds="3 detection outcomes x leading '<' x selector"),
        *[ob(f"O3-open-path-smt/{m}/{'clobber' if c else 'noclobber'}", "smt", "open_path_smt", {"mode": m, "clobber": c}, timeout=240, group="O3-open-path-smt", bounds="all path strings <= 40 chars, target exists or not") for m in ("r", "rb", "w", "wb", "a") for c in (True, False)],
        ob("O3-open-path", "xh", "path_open", {}, timeout=to * 2, bounds="10 suffixes x 5 modes x clobber x exists x 4 stdio spellings"),
        *[ob(f"O5-interleaved-writers/{EXTS[i] or 'raw'}", "xh", "interleaved", {"ea": i, "k": 4 if tier == "quick" else 6}, timeout=to * 2, group="O5-interleaved", bounds=f"second writer's codec x every schedule of {4 if tier == 'quick' else 6} interleaved writes, real codecs and files") for i in range(len(EXTS))],
        *[ob(f"O5-interleaved-readers/{EXTS[i] or 'raw'}", "xh", "interleaved_read", {"ea": i}, timeout=to * 2, group="O5-interleaved", bounds="second source's codec x 3 ways of naming x every schedule of 3 alternating reads, real codecs and files") for i in range(len(EXTS))],
        ob("O4-stdin-reader", "xh", "stdin_reader", {}, timeout=to, bounds="3 spellings of standard input x detected container x reader/writer x selector"),
        ob("O4-urls", "xh", "urls", {}, timeout=to * 2, bounds=f"{len(URLS)} URL spellings x reader/writer x clobber"),
    ]


# ------------------------------------------------------------------------------------------------ replay (real codecs, real files)
def real_matrix():
    """Codec x container x way of naming the source, with real compressors and real files. Returns first problem or None."""
    import bz2
    import gzip
    import subprocess
    import sys

    import lz4.frame
    import zstandard

    from flow.record import RecordDescriptor, RecordReader, RecordWriter
    from flow.record.exceptions import RecordAdapterNotFound

    D = RecordDescriptor("test/c11", [("varint", "n"), ("string", "s")])
    want = [(i, "v%d" % i) for i in range(5)]
    recs = [D(n, s) for n, s in want]  # built once: the same records (same _generated) are written everywhere
    codecs = {"": lambda b: b, ".gz": gzip.compress, ".bz2": bz2.compress, ".lz4": lz4.frame.compress, ".zst": zstandard.ZstdCompressor().compress}
    with tempdir() as d:
        for container in ("records", "avro"):
            plain = f"{d}/base.{container}"
            w = RecordWriter(plain)
            for r in recs:
                w.write(r)
            w.flush()
            w.close()
            raw = open(plain, "rb").read()
            for ext, comp in codecs.items():
                data = comp(raw)
                named = f"{d}/named.{container}{ext}"
                hidden = f"{d}/hidden-{container}{ext.replace('.', '-')}.bin"
                for p in (named, hidden):
                    open(p, "wb").write(data)
                sources = {
                    "path with extension": lambda: RecordReader(named if container == "records" else "avro://" + named),
                    "path hiding the codec": lambda: RecordReader(("stream://" if container == "records" else "avro://") + hidden),
                    "buffered file object": lambda: RecordReader(fileobj=open(hidden, "rb")),
                    "BytesIO (no peek)": lambda: RecordReader(fileobj=io.BytesIO(data)),
                    "raw unbuffered file object": lambda: RecordReader(fileobj=open(hidden, "rb", buffering=0)),
                }
                for label, mk_ in sources.items():
                    try:
                        with mk_() as rd:
                            got = [(r.n, r.s) for r in rd]
                    except Exception as e:  # noqa: BLE001
                        return f"{container}{ext or ' (raw)'} via {label}: {type(e).__name__}: {e}"
                    if got != want:
                        return f"{container}{ext or ' (raw)'} via {label}: read {got}"
                # stdin, named in every way
                for spelling in (["-"], [""], ["stream://-"] if container == "records" else ["avro://-"], ["stream://"] if container == "records" else ["avro://"]):
                    code = "import sys; from flow.record import RecordReader; print([(r.n, r.s) for r in RecordReader(%r)])" % spelling[0]
                    pr = subprocess.run([sys.executable, "-c", code], input=data, capture_output=True, env={"PYTHONPATH": ":".join(sys.path)})
                    if pr.returncode != 0 or pr.stdout.decode().strip() != repr(want):
                        return f"{container}{ext or ' (raw)'} on stdin named {spelling[0]!r}: {pr.stderr.decode().strip().splitlines()[-1:] or pr.stdout.decode()[:100]}"
            # written through the path extension: a standard decompressor accepts it
            if container == "records":
                for ext, dec in ((".gz", gzip.decompress), (".bz2", bz2.decompress), (".lz4", lz4.frame.decompress), (".zst", lambda b: zstandard.ZstdDecompressor().decompressobj().decompress(b))):
                    p = f"{d}/written.records{ext}"
                    w = RecordWriter(p)
                    for r in recs:
                        w.write(r)
                    w.flush()
                    w.close()
                    try:
                        if dec(open(p, "rb").read()) != raw:
                            return f"writing to *{ext}: decompressed content differs from the uncompressed stream"
                    except Exception as e:  # noqa: BLE001
                        return f"writing to *{ext}: a standard decompressor rejects the file: {type(e).__name__}: {e}"
        for junk in (b"", b"<test/c11 n=1>", b"\x00" * 40, b"RECORDSTREAM", b"hello world, this is not a stream"):
            try:
                list(RecordReader(fileobj=io.BytesIO(junk)))
                return f"non-stream bytes {junk[:20]!r} were read as records"
            except (RecordAdapterNotFound, IOError, EOFError, ValueError):
                pass
            except Exception as e:  # noqa: BLE001
                if type(e).__name__ not in ("RecordAdapterNotFound",):
                    return f"non-stream bytes {junk[:20]!r}: unexpected {type(e).__name__}: {e}"
    return None


def replay_header(res):
    """the solver's header bytes (and a few completions of them) as a file, a file object and a stream:// URL"""
    from flow.record import RecordReader
    from flow.record.stream import RecordStreamReader

    m = (res.get("cex") or {}).get("kw") or {}
    raw = bytes.fromhex(m.get("header", ""))
    if m.get("outcome") == "raise":
        try:
            list(RecordStreamReader(io.BytesIO(raw)))
        except Exception as e:  # noqa: BLE001
            return {"reproduced": True, "key": "C11/header/refused", "what": f"the header frame the format prescribes ({raw!r}) is refused: {type(e).__name__}: {e}", "input": {"header": raw.hex()}}
        return {"reproduced": False, "what": "prescribed header accepted"}
    for tail in (b"", b"hello\n", b"\x00\x00\x00\x01\xc0"):
        body = raw + tail
        with tempdir() as d:
            p = d + "/input.bin"
            open(p, "wb").write(body)
            for how in ("path", "fileobj"):
                try:
                    rd = RecordReader(p) if how == "path" else RecordReader(fileobj=open(p, "rb"))
                    got = list(rd)
                    rd.close()
                except Exception:  # noqa: BLE001 - refused: what the property demands
                    continue
                if len(body) >= 19 and body[6:19] != b"RECORDSTREAM\n":
                    return {"reproduced": True, "key": "C11/header/lenient", "what": f"input {body!r} (no stream header: the magic is not at offset 6) opened by {how} is read as a record stream yielding {len(got)} record(s) instead of being refused", "input": {"bytes": body.hex(), "how": how}}
    return {"reproduced": False, "what": "inputs built from the solver's header are refused"}


def replay_open_path(res):
    """the solver's (path, mode, clobber, exists) through the real open_path in a scratch directory: which opener answered?"""
    import bz2
    import gzip

    import flow.record.base as B

    m = (res.get("cex") or {}).get("kw") or {}
    path, mode, clobber, exists = m.get("path"), m.get("mode"), m.get("clobber"), m.get("exists")
    if not isinstance(path, str) or "/" in path or "\x00" in path or path in (".", "..") or len(path.encode("utf-8", "replace")) > 200:
        return {"reproduced": False, "what": f"path {path!r} cannot be used as a file name in a scratch directory"}
    tries = [(path, exists)] + ([(path, not exists)] if path not in ("", "-") else [])
    for pth, ex in tries:
        with tempdir() as d:
            cwd = os.getcwd()
            os.chdir(d)
            try:
                if ex and pth not in ("", "-"):
                    open(pth, "wb").write(b"\x00\x00\x00\x0f\xc4\rRECORDSTREAM\n")
                elif not ex and mode in ("r", "rb") and pth not in ("", "-"):
                    continue  # reading a file that does not exist fails in every implementation
                out_mode = mode in ("w", "wb")
                want_raise = mode not in ("r", "rb", "w", "wb") or (out_mode and not clobber and ex and pth not in ("", "-"))
                try:
                    fp = B.open_path(pth, mode, clobber)
                    got = f"{type(fp).__module__}.{type(fp).__name__}"
                    raised = None
                except Exception as e:  # noqa: BLE001
                    fp, got, raised = None, None, f"{type(e).__name__}: {e}"
                finally:
                    pass
                if pth.endswith(".gz"):
                    want = "gzip.GzipFile"
                elif pth.endswith(".bz2"):
                    want = "bz2.BZ2File"
                elif pth.endswith(".lz4"):
                    want = "lz4.frame.LZ4FrameFile"
                elif pth.endswith((".zst", ".zstd")):
                    want = "zstd"
                else:
                    want = "plain"
                kind = None
                if got:
                    kind = "gzip.GzipFile" if got == "gzip.GzipFile" else "bz2.BZ2File" if got.endswith("BZ2File") else "lz4.frame.LZ4FrameFile" if "lz4" in got.lower() else "zstd" if "zstd" in got.lower() else "plain"
                try:
                    if fp is not None and pth not in ("", "-"):
                        fp.close()
                except Exception:  # noqa: BLE001
                    pass
                if want_raise != (raised is not None) and not (raised and want != "plain" and not ex and mode in ("r", "rb")):
                    return {"reproduced": True, "key": "C11/open-path/raise", "what": f"open_path({pth!r}, {mode!r}, clobber={clobber}) with the target {'existing' if ex else 'absent'}: " + (f"raised {raised}" if raised else f"returned {got}") + f", the table says it should {'raise' if want_raise else 'open the file'}", "input": {"path": pth, "mode": mode, "clobber": clobber, "exists": ex}}
                if kind is not None and kind != want:
                    return {"reproduced": True, "key": "C11/open-path/opener", "what": f"open_path({pth!r}, {mode!r}) answered with {got}, the extension table prescribes {want}", "input": {"path": pth, "mode": mode, "clobber": clobber, "exists": ex}}
                if kind == "plain" and mode == "rb" and pth not in ("", "-") and not hasattr(fp, "peek"):
                    return {"reproduced": True, "key": "C11/open-path/not-sniffed", "what": f"open_path({pth!r}, 'rb') returned {got}, which was not passed through open_stream (no peek): the codec would not be recognised from the leading bytes", "input": {"path": pth, "mode": mode}}
            finally:
                os.chdir(cwd)
    return {"reproduced": False, "what": "the real open_path follows the extension table on the solver's input"}


def replay(res):
    if "open-path-smt" in res["id"]:
        return replay_open_path(res)
    if "stream-header" in res["id"]:
        return replay_header(res)
    if "interleaved-readers" in res["id"]:
        ea = EXTS[res["args"]["ea"]]
        for eb in EXTS:
            for how in ("path", "hidden", "fileobj"):
                for sch in ([False, True, False], [True, True, False], [False, False, True]):
                    p = interleaved_read_problem(ea, eb, sch, how)
                    if p:
                        return {"reproduced": True, "key": f"C11/interleaved-readers/{ea or 'raw'}+{eb or 'raw'}", "what": p[:600], "input": {"ext_a": ea, "ext_b": eb, "schedule": sch, "how": how}}
        return {"reproduced": False, "what": "interleaved readers yield their own records"}
    if "interleaved" in res["id"]:
        v = cex_args(res, ["eb", "s0", "s1", "s2", "s3"])
        ea = EXTS[res["args"]["ea"]]
        tries = []
        if isinstance(v.get("eb"), int) and 0 <= v["eb"] < len(EXTS):
            tries.append((EXTS[v["eb"]], [bool(v.get(f"s{i}")) for i in range(res["args"].get("k", 4))]))
        tries += [(e, sch) for e in EXTS for sch in ([False, True, False, True], [True, False, False, True], [False, False, True, True])]
        for eb, sch in tries:
            p = interleaved_problem(ea, eb, sch)
            if p:
                return {"reproduced": True, "key": f"C11/interleaved/{ea or 'raw'}+{eb or 'raw'}", "what": f"two writers open at the same time (*{ea or 'raw'}, *{eb or 'raw'}), writes interleaved {['AB'[int(x)] for x in sch]}: {p}", "input": {"ext_a": ea, "ext_b": eb, "schedule": sch}}
        return {"reproduced": False, "what": "interleaved writers read back exactly"}
    problem = real_matrix()
    if problem is None:
        return {"reproduced": False, "what": "codec x container x naming matrix reads back exactly with real codecs"}
    return {"reproduced": True, "key": f"C11/{res['id'].split('/')[1]}", "what": problem[:500], "input": {"problem": problem}}
