"""SMT kernels shared by C01 / C02 / C03: encodings generated from the repo's current AST on every run."""
import ast
import time

import z3

from vf.smt.kse import Evaluator, SymBytes, SymInt, Untranslatable, cross_check_cvc5, get_function_ast, find_if


def _is_isinstance_int(t):
    return isinstance(t, ast.Call) and getattr(t.func, "id", "") == "isinstance" and len(t.args) == 2 and isinstance(t.args[1], ast.Name) and t.args[1].id == "int"


def _is_subtype(name):
    def pred(t):
        return isinstance(t, ast.Compare) and isinstance(t.left, ast.Name) and t.left.id == "subtype" and len(t.comparators) == 1 and getattr(t.comparators[0], "id", "") == name

    return pred


def _real_varint_roundtrip(v):
    from flow.record.packer import RecordPacker

    p = RecordPacker()
    return p.unpack(p.pack(v))


def varint_codec(max_bits=136, width=160, cross=False, spec=True, min_bits=0):
    """unpack(pack(v)) == v and the payload is the spec's (neg flag, big-endian magnitude) for all |v| < 2^max_bits.

    real: the `isinstance(obj, int)` branch of RecordPacker.pack_obj and the RECORD_PACK_TYPE_VARINT branch of unpack_obj."""
    t0 = time.time()
    try:
        pack_fn, mod, _ = get_function_ast("flow.record.packer:RecordPacker.pack_obj")
        unpack_fn, _, _ = get_function_ast("flow.record.packer:RecordPacker.unpack_obj")
        pack_branch = find_if(pack_fn, _is_isinstance_int)
        unpack_branch = find_if(unpack_fn, _is_subtype("RECORD_PACK_TYPE_VARINT"))
        ev = Evaluator(mod, width=width, max_bits=max_bits, min_bits=min_bits)
        v = z3.BitVec("v", width)
        paths = 0
        validated = 0
        crossed = []
        for o in ev.run(list(pack_branch.body), {"obj": SymInt(v, width)}, []):
            if o.kind != "fall":
                raise Untranslatable(f"pack branch ended with {o.kind}")
            packed = o.env.get("packed")
            if not (isinstance(packed, tuple) and len(packed) == 2):
                raise Untranslatable("packed is not (subtype, payload)")
            subtype, payload = packed
            # feasibility of the path (vacuity guard) + a model to validate the translation against the real code
            r, model, _ = ev.check(o.pc)
            if r == "unsat":
                continue
            if r != "sat":
                return {"verdict": "unknown", "detail": "path feasibility unknown", "queries": ev.queries, "solver_s": ev.solver_s}
            paths += 1
            if paths % 16 == 1:
                cv = model.eval(v, model_completion=True).as_signed_long()
                if _real_varint_roundtrip(cv) != cv:
                    return {"verdict": "sat", "model": {"v": cv}, "detail": f"real round trip of {cv} differs", "queries": ev.queries, "solver_s": ev.solver_s}
                validated += 1
            if subtype != mod.RECORD_PACK_TYPE_VARINT:
                return {"verdict": "sat", "model": {"v": model.eval(v, model_completion=True).as_signed_long()}, "detail": f"sub-type {subtype!r} is not RECORD_PACK_TYPE_VARINT", "queries": ev.queries, "solver_s": ev.solver_s}
            # decode with the real unpack branch
            outs = list(ev.run(list(unpack_branch.body), {"value": payload}, o.pc))
            for u in outs:
                if u.kind != "return" or not isinstance(u.value, SymInt):
                    raise Untranslatable(f"unpack branch ended with {u.kind}")
                r, m, s = ev.check(u.pc + [u.value.t != v])
                if r == "sat":
                    return {"verdict": "sat", "model": {"v": m.eval(v, model_completion=True).as_signed_long()}, "detail": "unpack(pack(v)) != v", "queries": ev.queries, "solver_s": ev.solver_s}
                if r != "unsat":
                    return {"verdict": "unknown", "detail": "round-trip query " + r, "queries": ev.queries, "solver_s": ev.solver_s}
                if cross and paths % 32 == 1:
                    crossed.append(cross_check_cvc5(s, "unsat"))
            if spec:
                # payload == (v < 0, big-endian magnitude) as decoded by the reference: int.from_bytes(bytes, 'big') == |v|
                if not (isinstance(payload, tuple) and len(payload) == 2 and isinstance(payload[1], SymBytes)):
                    raise Untranslatable("payload is not (neg, bytes)")
                neg, bs = payload
                acc = z3.BitVecVal(0, width)
                for b in bs.bs:
                    acc = (acc << 8) | z3.ZeroExt(width - 8, b)
                negt = neg if z3.is_bool(neg) else z3.BoolVal(bool(neg))
                # reference decoder (spec/wire.py): v' = -int.from_bytes(bytes, 'big') if neg else int.from_bytes(bytes, 'big')
                for q, what in (([z3.If(negt, -acc, acc) != v], "the reference decoder reads a different integer from the payload"), ([negt != (v < 0)], "sign flag is not (v < 0)")):
                    r, m, s = ev.check(o.pc + q)
                    if r == "sat":
                        return {"verdict": "sat", "model": {"v": m.eval(v, model_completion=True).as_signed_long()}, "detail": what, "queries": ev.queries, "solver_s": ev.solver_s}
                    if r != "unsat":
                        return {"verdict": "unknown", "detail": "spec query " + r, "queries": ev.queries, "solver_s": ev.solver_s}
        # all values inside the bound are covered by some path?
        if paths != max_bits - min_bits + 1:
            return {"verdict": "unknown", "detail": f"{paths} feasible paths for bit lengths {min_bits}..{max_bits} (expected one per bit length)", "queries": ev.queries, "solver_s": ev.solver_s}
        bad = [c for c in crossed if c.startswith("disagree")]
        if bad:
            return {"verdict": "unknown", "detail": f"cvc5 disagrees: {bad}", "queries": ev.queries, "solver_s": ev.solver_s}
        return {
            "verdict": "unsat",
            "detail": f"bit lengths {min_bits}..{max_bits}: {paths} feasible paths, all round-trip and spec queries unsat; {validated} path models replayed on the real packer; cvc5: {sorted(set(crossed)) or 'not run'}",
            "queries": ev.queries,
            "solver_s": ev.solver_s,
            "validated": validated,
        }
    except Untranslatable as e:
        return {"verdict": "unknown", "detail": f"untranslatable: {e}", "queries": 0, "solver_s": 0.0}


def varint_spec_decode(max_bits=136, width=160):
    """Converse: the spec's payload (neg, minimal big-endian magnitude) is decoded by the real unpack branch to v."""
    try:
        unpack_fn, mod, _ = get_function_ast("flow.record.packer:RecordPacker.unpack_obj")
        unpack_branch = find_if(unpack_fn, _is_subtype("RECORD_PACK_TYPE_VARINT"))
        ev = Evaluator(mod, width=width, max_bits=max_bits)
        nmax = (max_bits + 7) // 8
        for n in range(0, nmax + 1):
            bs = [z3.BitVec(f"b{i}", 8) for i in range(n)]
            neg = z3.Bool("neg")
            mag = z3.BitVecVal(0, width)
            for b in bs:
                mag = (mag << 8) | z3.ZeroExt(width - 8, b)
            expect = z3.If(neg, -mag, mag)
            for u in ev.run(list(unpack_branch.body), {"value": (neg, SymBytes(bs))}, []):
                if u.kind != "return" or not isinstance(u.value, SymInt):
                    raise Untranslatable(f"unpack branch ended with {u.kind}")
                r, m, _ = ev.check(u.pc + [u.value.t != expect])
                if r == "sat":
                    cb = bytes(m.eval(b, model_completion=True).as_long() for b in bs)
                    cneg = bool(m.eval(neg, model_completion=True))
                    return {"verdict": "sat", "model": {"neg": cneg, "bytes": cb.hex()}, "detail": "spec payload decoded to a different integer", "queries": ev.queries, "solver_s": ev.solver_s}
                if r != "unsat":
                    return {"verdict": "unknown", "detail": r, "queries": ev.queries, "solver_s": ev.solver_s}
        return {"verdict": "unsat", "detail": f"payloads of 0..{nmax} bytes x sign flag decode to the encoded integer", "queries": ev.queries, "solver_s": ev.solver_s}
    except Untranslatable as e:
        return {"verdict": "unknown", "detail": f"untranslatable: {e}", "queries": 0, "solver_s": 0.0}


def _struct_calls(fn, which):
    out = []
    for node in ast.walk(fn):
        if isinstance(node, ast.Call) and isinstance(node.func, ast.Attribute) and isinstance(node.func.value, ast.Name) and node.func.value.id == "struct" and node.func.attr == which:
            out.append(node)
    return out


def length_prefix():
    """The 4 bytes written in front of a frame are the spec's big-endian bytes of the body length, and the reader decodes
    the spec's bytes to that length: every struct.pack / struct.unpack call site of the stream writer / reader, all n < 2^32."""
    try:
        W = 64
        wfn, wmod, _ = get_function_ast("flow.record.stream:RecordStreamWriter.write")
        rfn, rmod, _ = get_function_ast("flow.record.stream:RecordStreamReader.read")
        ev = Evaluator(wmod, width=W)
        n = z3.BitVec("n", W)
        rng = [n >= 0, n < z3.BitVecVal(1 << 32, W)]
        spec = [z3.Extract(31 - 8 * i, 24 - 8 * i, n) for i in range(4)]
        packs = _struct_calls(wfn, "pack")
        unpacks = _struct_calls(rfn, "unpack")
        if len(packs) != 1 or len(unpacks) != 1:
            raise Untranslatable(f"{len(packs)} struct.pack / {len(unpacks)} struct.unpack call sites (expected one each)")
        fmt = packs[0].args[0]
        if not isinstance(fmt, ast.Constant):
            raise Untranslatable("non-literal struct format")
        written = ev.struct_call("pack", [fmt.value, SymInt(n, W)])
        if len(written) != 4:
            return {"verdict": "sat", "model": {"format": fmt.value}, "detail": f"length prefix is {len(written)} bytes", "queries": 0, "solver_s": 0.0}
        r, m, s1 = ev.check(rng + [z3.Or(*[a != b for a, b in zip(written.bs, spec)])])
        if r == "sat":
            return {"verdict": "sat", "model": {"n": m.eval(n, model_completion=True).as_long(), "format": fmt.value}, "detail": "written prefix differs from the big-endian bytes of the length", "queries": ev.queries, "solver_s": ev.solver_s}
        if r != "unsat":
            return {"verdict": "unknown", "detail": r, "queries": ev.queries, "solver_s": ev.solver_s}
        rfmt = unpacks[0].args[0]
        if not isinstance(rfmt, ast.Constant):
            raise Untranslatable("non-literal struct format")
        bs = [z3.BitVec(f"p{i}", 8) for i in range(4)]
        (got,) = ev.struct_call("unpack", [rfmt.value, SymBytes(bs)])
        want = z3.ZeroExt(W - 32, z3.Concat(*bs))
        r, m, s2 = ev.check([got.t != want])
        if r == "sat":
            return {"verdict": "sat", "model": {"bytes": bytes(m.eval(b, model_completion=True).as_long() for b in bs).hex(), "format": rfmt.value}, "detail": "reader decodes the prefix differently from big-endian", "queries": ev.queries, "solver_s": ev.solver_s}
        if r != "unsat":
            return {"verdict": "unknown", "detail": r, "queries": ev.queries, "solver_s": ev.solver_s}
        # translator validation on the repo's own inputs
        import struct as _s

        for val in (0, 1, 255, 256, 65535, 2**24, 2**32 - 1):
            assert _s.pack(fmt.value, val) == bytes(z3.simplify(z3.substitute(b, (n, z3.BitVecVal(val, W)))).as_long() for b in written.bs)
        cc = [cross_check_cvc5(s1, "unsat"), cross_check_cvc5(s2, "unsat")]
        return {"verdict": "unsat", "detail": f"writer format {fmt.value!r}, reader format {rfmt.value!r}: both equal the spec for all n < 2^32; cvc5: {cc}", "queries": ev.queries, "solver_s": ev.solver_s, "validated": 7}
    except Untranslatable as e:
        return {"verdict": "unknown", "detail": f"untranslatable: {e}", "queries": 0, "solver_s": 0.0}


def descriptor_hash(nfields=2):
    """calc_descriptor_hash: the hash input is name ++ sum(fieldname ++ fieldtype) in field order, and the identifier is the
    first four digest bytes, big endian (sha256 itself is uninterpreted)."""
    from vf.smt.kse import Encoded, FakeHash

    try:
        W = 64
        fn, mod, _ = get_function_ast("flow.record.base:RecordDescriptor.calc_descriptor_hash")
        ev = Evaluator(mod, width=W)
        name = z3.String("name")
        fields = tuple((z3.String(f"t{i}"), z3.String(f"n{i}")) for i in range(nfields))
        outs = list(ev.run(list(fn.body), {"name": name, "fields": fields}, []))
        if len(outs) != 1 or outs[0].kind != "return" or not isinstance(outs[0].value, SymInt):
            raise Untranslatable("calc_descriptor_hash does not return one integer")
        if len(ev.hashes) != 1:
            raise Untranslatable(f"{len(ev.hashes)} hash objects")
        h = ev.hashes[0]
        if getattr(h, "algorithm", None) != "sha256":
            return {"verdict": "sat", "model": {"algorithm": getattr(h, "algorithm", None)}, "detail": "hash algorithm is not sha256", "queries": 0, "solver_s": 0.0}
        if not isinstance(h.arg, Encoded):
            raise Untranslatable("hash input is not <text>.encode()")
        spec = z3.Concat(name, *[z3.Concat(n, t) for t, n in fields]) if nfields else name
        r, m, s1 = ev.check([h.arg.term != spec])
        if r == "sat":
            model = {"name": m.eval(name, model_completion=True).as_string(), "fields": [(m.eval(t, model_completion=True).as_string(), m.eval(n, model_completion=True).as_string()) for t, n in fields]}
            return {"verdict": "sat", "model": model, "detail": "hash input differs from name + sum(fieldname + fieldtype)", "queries": ev.queries, "solver_s": ev.solver_s}
        if r != "unsat":
            return {"verdict": "unknown", "detail": r, "queries": ev.queries, "solver_s": ev.solver_s}
        d = h.bytes.bs
        want = z3.ZeroExt(W - 32, z3.Concat(d[0], d[1], d[2], d[3]))
        r, m, s2 = ev.check([outs[0].value.t != want])
        if r == "sat":
            return {"verdict": "sat", "model": {"digest": bytes(m.eval(b, model_completion=True).as_long() for b in d).hex()}, "detail": "identifier is not the first four digest bytes, big endian", "queries": ev.queries, "solver_s": ev.solver_s}
        if r != "unsat":
            return {"verdict": "unknown", "detail": r, "queries": ev.queries, "solver_s": ev.solver_s}
        # translator validation: the real function on concrete descriptors against the spec
        from flow.record import RecordDescriptor
        from spec import wire

        checked = 0
        for nm, fl in (("a/b", (("string", "x"), ("varint", "y"))), ("t", ()), ("x", (("net.ipaddress[]", "q"),))):
            assert RecordDescriptor.calc_descriptor_hash(nm, fl) == wire.descriptor_hash(nm, fl), (nm, fl)
            checked += 1
        cc = [cross_check_cvc5(s1, "unsat"), cross_check_cvc5(s2, "unsat")]
        return {"verdict": "unsat", "detail": f"{nfields} fields, unbounded strings; cvc5: {cc}", "queries": ev.queries, "solver_s": ev.solver_s, "validated": checked}
    except Untranslatable as e:
        return {"verdict": "unknown", "detail": f"untranslatable: {e}", "queries": 0, "solver_s": 0.0}
