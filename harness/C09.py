"""C09 - the interpreted selector is a sandbox.

No value dimension: the hostile call / attribute shapes are enumerated by the driver (every alternative spelling of a call
target to a bounded depth, nested in every supported construct) and handed to CrossHair in batches; a symbolic index selects
the shape, so the solver closes every feasible path of the real ``_eval`` for each shape (path-exhaustive enumeration; the
evidence says so). Oracle = reference classification written from the property text.
"""
import ast
import itertools

from harness.common import cex_args, mk

PROPERTY = "C09"
FUNCTIONS = [
    "flow.record.selector:RecordContextMatcher._eval",
    "flow.record.selector:RecordContextMatcher.matches",
    "flow.record.selector:resolve_attr_path",
    "flow.record.base:DynamicFieldtypeModule.__getattr__",
    "flow.record.base:DynamicFieldtypeModule.__call__",
    "flow.record.selector:lower",
    "flow.record.selector:upper",
    "flow.record.selector:field_contains",
    "flow.record.selector:field_equals",
]
BOUNDS = {
    "shapes": "call targets built from Name | Attribute(target, a) | Call(helper, target) | Constant | BinOp(target + 'a') to depth 2 (quick) / 3 (thorough), "
    "each placed in 17 contexts up to depth 1 (quick) / 2 (thorough): bare call, comparison, and/or, list, helper argument, any(...) body, attribute of the result, "
    "called through / attribute-called through a generator variable under 5 names; the deepest targets in the 3 most permissive contexts",
    "hostile arguments": "every allowed callee (helpers, str/repr/any/all/fields, every whitelisted field-type constructor) x 7 callables reached through attributes x 8 argument placements",
    "purity": "every whitelisted helper / builtin applied to every field kind of a record with list, dict, path, digest, bytes, command and nested-record fields",
}
STUBS = ["record holds instrumented canaries in pass-through ('record'-typed) fields: a str subclass that logs method calls and a callable that logs invocation"]
OUTSIDE = ["shapes deeper than the bound", "the compiled selector (documented as unsafe)"]
ASSUMPTIONS = [
    "allowed calls = bare name bound to a whitelisted helper, str/repr/any/all/fields, or a dotted name in the field-type WHITELIST (property text)",
    "this property has no value dimension: coverage is that of bounded-exhaustive enumeration, the solver contributes the per-shape path closure",
]

ob = mk("harness.C09", PROPERTY)

NAMES = ["r", "lower", "upper", "str", "repr", "any", "all", "fields", "name", "has_field", "x", "net", "string", "Type", "zz"]
ATTRS = ["s", "c", "f", "upper", "lower", "ipaddress", "call", "__class__", "__call__", "_desc", "tags"]
GEN_VARS = ["f", "net", "string", "lower", "x"]
LOG = []


class CanaryStr(str):
    # upper()/lower() are deliberately NOT instrumented: the whitelisted helpers lower()/upper() legitimately call them
    def call(self, *a):
        LOG.append("CanaryStr.call")
        return "called"

    def ipaddress(self, *a):
        LOG.append("CanaryStr.ipaddress")
        return "called"

    def __call__(self, *a):
        LOG.append("CanaryStr.__call__")
        return "called"


class CanaryCallable:
    def __call__(self, *a, **k):
        LOG.append("CanaryCallable()")
        return True

    def ipaddress(self, *a):
        LOG.append("CanaryCallable.ipaddress")
        return True

    def call(self, *a):
        LOG.append("CanaryCallable.call")
        return True

    def string(self, *a):
        LOG.append("CanaryCallable.string")
        return True

    def __repr__(self):
        return "<canary callable>"


class CanaryDuck(CanaryCallable):
    """for the documented helpers (not the field-type constructors, whose conversion logic may consult their argument): the helpers
    are documented to look at text and records only, so ANY method they invoke on another value (gettypename, items, ...) is logged"""

    def __getattr__(self, name):
        if name.startswith("_"):
            raise AttributeError(name)

        def method(*a, **k):
            LOG.append(f"CanaryDuck.{name}")
            return True

        return method


def allowed_names():
    from flow.record.selector import FUNCTION_WHITELIST

    return {f.__name__ for f in FUNCTION_WHITELIST} | {"str", "repr", "any", "all", "fields"}


def call_allowed(func, genvars):
    """Reference classification of one call target, from the property text."""
    from flow.record.whitelist import WHITELIST

    if isinstance(func, ast.Name):
        if func.id in genvars:
            return False
        return func.id in allowed_names() or func.id in WHITELIST
    parts = []
    x = func
    while isinstance(x, ast.Attribute):
        parts.append(x.attr)
        x = x.value
    if isinstance(x, ast.Name) and x.id not in genvars:
        parts.append(x.id)
        return ".".join(reversed(parts)) in WHITELIST
    return False


def is_bad(src):
    """True iff the expression contains a call that is not allowed or a double-underscore attribute access."""
    tree = ast.parse(src, mode="eval")
    genvars = set()
    for n in ast.walk(tree):
        if isinstance(n, ast.comprehension) and isinstance(n.target, ast.Name):
            genvars.add(n.target.id)
    for n in ast.walk(tree):
        if isinstance(n, ast.Attribute) and n.attr.startswith("__"):
            return True
        if isinstance(n, ast.Call) and not call_allowed(n.func, genvars):
            return True
    return False


def targets(depth):
    base = [ast.Name(id=n, ctx=ast.Load()) for n in NAMES] + [ast.Constant(value="abc")]
    if depth == 0:
        return base
    out = list(base)
    for t in targets(depth - 1):
        for a in ATTRS:
            out.append(ast.Attribute(value=t, attr=a, ctx=ast.Load()))
        out.append(ast.Call(func=ast.Name(id="lower", ctx=ast.Load()), args=[t], keywords=[]))
        out.append(ast.BinOp(left=t, op=ast.Add(), right=ast.Constant(value="a")))
    return out


_SHAPES = {}


def shapes(depth, full_depth=None):
    """All expressions: each target in each context. Targets up to `full_depth` get every context, deeper ones the three
    most permissive contexts (bare call, call through a generator variable, attribute call through a variable named 'net').
    De-duplicated, deterministic order."""
    if full_depth is None:
        full_depth = depth
    key = (depth, full_depth)
    if key in _SHAPES:
        return _SHAPES[key]
    seen = set()
    out = []
    shallow = {ast.unparse(t) for t in targets(full_depth)}
    for t in targets(depth):
        ts = ast.unparse(t)
        if not isinstance(t, (ast.Name, ast.Attribute)):
            call = f"({ts})()"
        else:
            call = f"{ts}()"
        if ts in shallow:
            cands = [
                call,
                f"{call} == 1",
                f"True and {call}",
                f"[{call}] == []",
                f"lower({call})",
                f"any({call} for q in [1])",
                f"{call}.upper",
            ]
            for v in GEN_VARS:
                cands.append(f"any({v}() for {v} in [{ts}])")
                cands.append(f"any({v}.ipaddress() for {v} in [{ts}])")
            # a generator consumed by something other than any()/all(): membership test, comparison, helper argument, if clause
            cands.append(f"'x' in (f() for f in [{ts}])")
            cands.append(f"1 in (1 for f in [{ts}] if f())")
            cands.append(f"(1 in (f for f in [{ts}])) or f()")
            cands.append(f"1 not in (net.ipaddress() for net in [{ts}])")
            cands.append(f"[f() for f in [{ts}]] == []")
            cands.append(f"any(1 for f in [{ts}] if f())")
            cands.append(f"all(string() for string in [{ts}] if string)")
        else:
            cands = [call, f"any(f() for f in [{ts}])", f"any(net.ipaddress() for net in [{ts}])"]
        for c in cands:
            if c not in seen:
                seen.add(c)
                out.append(c)
    _SHAPES[key] = out
    return out


def bad_shapes(depth, full_depth):
    return [s for s in shapes(depth, full_depth) if is_bad(s)]


def make_record(duck=False):
    from flow.record import RecordDescriptor

    D = RecordDescriptor("test/sandbox", [("string", "s"), ("varint", "n"), ("record", "c"), ("record", "f"), ("string[]", "tags")])
    return D("abc", 1, CanaryStr("canary"), CanaryDuck() if duck else CanaryCallable(), ["Alpha", "BETA"], _generated=1)


def sandbox(depth: int, full: int, lo: int, hi: int):
    """Every hostile shape of the batch must be refused, for all values of the record's plain fields."""
    from flow.record.selector import Selector

    batch = bad_shapes(depth, full)[lo:hi]
    sels = [Selector(s) for s in batch]

    def check(n: int, s: str) -> bool:
        """
        post: _
        """
        if len(s) > 2:
            return True
        rec = make_record()
        object.__setattr__(rec, "n", n)
        object.__setattr__(rec, "s", s)
        before = repr(rec._packdict()["tags"])
        for sel in sels:
            del LOG[:]
            try:
                sel.match(rec)
            except Exception:  # noqa: BLE001 - refusal
                if LOG or rec.n is not n or rec.s is not s or repr(rec._packdict()["tags"]) != before:
                    return False
                continue
            return False
        return True

    return check


def hostile_arguments():
    """Expressions whose only calls are ALLOWED ones, but whose arguments are callables reached through attributes: nothing may be
    invoked through them and the record must stay unchanged, whatever the call returns or raises."""
    from flow.record.whitelist import WHITELIST

    callees = sorted(allowed_names()) + sorted(WHITELIST)
    xs = ["r.f", "r.f.call", "r.c.call", "r.c", "r.tags.append", "r.tags.clear", "r.f.string"]
    out = []
    for h in callees:
        for x in xs:
            out += [f"{h}({x})", f"{h}(r, {x})", f"{h}(r, ['s'], {x})", f"{h}({x}, {x})", f"{h}([{x}])"]
        out += [f"{h}(typename=r.f.call)", f"{h}(r, ['s'], ['a'], nocase=r.f)", f"any({h}(q) for q in [r.f, r.tags.append])"]
    out += ["fields(r.f) == fields(r.c.call)", "r.s in fields(r.tags.append)", "any(x for x in fields(r.f.call))", "field_regex(r, r.f, r.f.call)", "field_equals(r, Type.string, r.f)",
            "field_contains(r, fields(r.tags.append), ['a'])", "has_field(r, r.f)", "str(fields)(r.f) == 1", "Type.string == r.f", "r.f in Type.string", "Type.record == r.f", "r.f == r.f.call",
            "r.f < r.f.call or True", "r.f + r.f.call == 1 or True", "[r.f, r.f.call] == (r.tags.append,)", "r.f in [r.f.call]", "not r.f", "r.f and r.f.call", "r.f.call or r.tags.clear"]
    return out


def _helper_callee(src):
    """True iff every call in the expression targets a documented helper / builtin (no field-type constructor)"""
    names = allowed_names()
    calls = [n for n in ast.walk(ast.parse(src, mode="eval")) if isinstance(n, ast.Call)]
    return bool(calls) and all(isinstance(c.func, ast.Name) and c.func.id in names for c in calls)


def hostargs(lo: int, hi: int):
    """path-exhaustive: a symbolic index selects the expression; the selector object is shared by all paths (a reader's selector
    serves many records)"""
    from crosshair.tracers import NoTracing
    from flow.record.selector import Selector

    batch = hostile_arguments()[lo:hi]
    sels = [Selector(s) for s in batch]
    ducks = [_helper_callee(s) for s in batch]
    n = len(batch)

    def check(i: int) -> bool:
        """
        post: _
        """
        if not (0 <= i < n):
            return True
        sel = None
        duck = False
        for j in range(n):
            if i == j:
                sel = sels[j]
                duck = ducks[j]
        with NoTracing():
            rec = make_record(duck)
            before = repr(rec._packdict())
            del LOG[:]
            try:
                sel.match(rec)
            except Exception:  # noqa: BLE001 - refusal or a type error inside an allowed helper: both fine
                pass
            return not LOG and repr(rec._packdict()) == before

    return check


def sandbox_idx(depth: int, full: int, lo: int, hi: int):
    """The same assertion with the shape selected by a symbolic index and the evaluation untraced (the record's plain fields hold fixed
    values): used for the bulk of the shapes, where re-tracing every selector on every path is the dominating cost. The selector objects
    are shared by all paths, as a reader's selector is shared by all records."""
    from crosshair.tracers import NoTracing
    from flow.record.selector import Selector

    batch = bad_shapes(depth, full)[lo:hi]
    sels = [Selector(s) for s in batch]
    n = len(batch)

    def check(b0: bool, b1: bool, b2: bool, b3: bool, b4: bool, b5: bool, b6: bool) -> bool:
        """
        post: _
        """
        # the index is decoded from 7 symbolic bits (7 decisions per path instead of a linear chain of comparisons)
        i = (1 if b0 else 0) + (2 if b1 else 0) + (4 if b2 else 0) + (8 if b3 else 0) + (16 if b4 else 0) + (32 if b5 else 0) + (64 if b6 else 0)
        if i >= n:
            return True
        sel = sels[i]
        with NoTracing():
            rec = make_record()
            before = repr(rec._packdict())
            del LOG[:]
            try:
                sel.match(rec)
            except Exception:  # noqa: BLE001 - refusal
                return not LOG and repr(rec._packdict()) == before
            return False

    return check


PURITY_FIELDS = [("string", "s"), ("varint", "n"), ("string[]", "tags"), ("stringlist", "sl"), ("dictlist", "dl"), ("path", "p"), ("digest", "dg"), ("bytes", "by"), ("record", "rr"), ("command", "cmd"), ("uri", "u"), ("net.ipaddress", "ip")]


def purity_record():
    from flow.record import RecordDescriptor

    D = RecordDescriptor("test/pure", PURITY_FIELDS)
    In = RecordDescriptor("test/inner", [("string[]", "names")])
    return D("MiXed", 7, ["Alpha", "BETA"], ["Mixed", "CASE"], [{"K": "V"}], "/tmp/Some/Path", ("d41d8cd98f00b204e9800998ecf8427e", None, None), b"\x00Ab", In(["In", "NER"], _generated=1), "ls -L /Tmp", "http://Example.com/A", "10.0.0.1", _generated=1)


def purity_programs():
    names = [n for _, n in PURITY_FIELDS]
    progs = []
    for f in names:
        for h in ("lower", "upper", "str", "repr", "get_type", "any", "all", "name", "names"):
            progs.append(f"{h}(r.{f})")
        progs.append(f"'alpha' in lower(r.{f})")
        progs.append(f"field_contains(r, ['{f}'], ['ALPHA'])")
        progs.append(f"field_equals(r, ['{f}'], ['nothing'])")
        progs.append(f"field_contains(r, ['{f}'], ['a'], nocase=False)")
        progs.append(f"r.{f} == r.{f}")
        progs.append(f"any(lower(x) == 'alpha' for x in [r.{f}])")
        # operators applied to the field value itself (an operator table entry that works in place would modify the record)
        progs.append(f"r.{f} + r.{f} == 1")
        progs.append(f"r.{f} * 2 == 1")
        progs.append(f"(r.{f} | r.{f}) == 1 or (r.{f} & r.{f}) == 1")
        progs.append(f"r.{f} % 3 == 1")
    for nocase in ("True", "False"):
        for wb in ("True", "False"):
            progs.append(f"field_contains(r, ['s', 'u'], r.tags, nocase={nocase}, word_boundary={wb})")
            progs.append(f"field_contains(r, r.sl, r.tags, nocase={nocase}, word_boundary={wb})")
        progs.append(f"field_equals(r, ['s'], r.tags, nocase={nocase})")
        progs.append(f"field_equals(r, r.tags, r.sl, nocase={nocase})")
    progs += ["field_regex(r, r.tags, 'a')", "field_contains(r, ['s'], r.rr.names, nocase=False, word_boundary=True)", "lower(r.tags) == upper(r.sl)", "names(r) == r.tags", "any(field_contains(r, ['s'], t, nocase=False, word_boundary=True) for t in [r.tags, r.sl])"]
    progs += ["'c' in r.tags + ['c']", "r.tags + ['c'] == ['Alpha', 'BETA', 'c']", "r.sl + r.tags == []", "r.tags * 2 == []", "r.dl + [{'x': 1}] == []", "r.rr.names + ['x'] == []", "r.by + r.by == r.by",
              "any(t + ['x'] for t in [r.tags, r.sl])", "r.tags + r.tags + r.tags == []", "str(r)", "repr(r)", "name(r)", "names(r)", "fields('string')", "has_field(r, 'tags')", "field_regex(r, ['s'], 'i')",
              "lower(r.rr.names) == ['in', 'ner']", "upper(r.tags) == ['ALPHA', 'BETA']", "field_contains(r, Type.string, ['mixed'])",
              "any(lower(t) == 'alpha' for t in r.tags)", "all(upper(t) for t in r.sl)", "lower(r.dl) == r.dl", "Type.string == 'MiXed'", "'Alpha' in Type.stringlist"]
    return progs


def purity(lo: int, hi: int):
    from crosshair.tracers import NoTracing
    from flow.record.selector import Selector

    progs = purity_programs()[lo:hi]
    sels = [Selector(p) for p in progs]
    n = len(progs)

    def check(i: int) -> bool:
        """
        post: _
        """
        if not (0 <= i < n):
            return True
        sel = None
        for j in range(n):
            if i == j:
                sel = sels[j]
        with NoTracing():
            rec = purity_record()
            pristine = purity_record()
            before = repr(rec._packdict())
            for _ in range(2):  # a selector object serves many records: evaluate twice
                try:
                    sel.match(rec)
                except Exception:  # noqa: BLE001
                    pass
            return repr(rec._packdict()) == before and rec._pack() == pristine._pack() and repr(rec.rr._packdict()) == repr(pristine.rr._packdict())

    return check


def classification_sanity():
    """The reference classification must call the documented examples the right way round."""
    good = ["lower(r.s) == 'a'", "net.ipaddress('1.2.3.4') == '1.2.3.4'", "any(x == 1 for x in [r.n])", "str(r.n) == '1'", "fields('string')", "string('a') == r.s"]
    bad = ["r.s.upper()", "lower(r.s).upper()", "'abc'.upper()", "any(f() for f in [r.s.upper])", "r.__class__", "(r.s + 'a')()", "any(net.ipaddress() for net in [r.f])", "open('x')", "__import__('os')"]
    wrong = [g for g in good if is_bad(g)] + [b for b in bad if not is_bad(b)]
    return {"ok": not wrong, "detail": f"misclassified: {wrong}"}


def obligations(tier, seed):
    depth, full = (2, 1) if tier == "quick" else (3, 2)
    obs = [ob("side/classification", "side", "classification_sanity", {})]
    # (a) with the record's plain field values symbolic: the shallow shapes (quick: depth 1, thorough: depth 2)
    sd, sf = (1, 1) if tier == "quick" else (2, 1)
    nsym = len(bad_shapes(sd, sf))
    size = 200 if tier == "quick" else 400
    for lo in range(0, nsym, size):
        obs.append(ob(f"sandbox/d{sd}/{lo}", "xh", "sandbox", {"depth": sd, "full": sf, "lo": lo, "hi": min(lo + size, nsym)}, timeout=150 if tier == "quick" else 600, group="sandbox", bounds=f"n: all ints, s: all strings <= 2 chars; shapes {lo}..{min(lo + size, nsym)} of {nsym} hostile shapes at depth {sd}"))
    # (b) the bulk: shape selected by a symbolic index, evaluation untraced
    nbad = len(bad_shapes(depth, full))
    size = 128
    for lo in range(0, nbad, size):
        obs.append(ob(f"sandbox-idx/d{depth}/{lo}", "xh", "sandbox_idx", {"depth": depth, "full": full, "lo": lo, "hi": min(lo + size, nbad)}, timeout=120 if tier == "quick" else 400, group="sandbox-idx", bounds=f"shapes {lo}..{min(lo + size, nbad)} of {nbad} hostile shapes at depth {depth} (index symbolic, path-exhaustive)"))
    nh = len(hostile_arguments())
    for lo in range(0, nh, 60):
        obs.append(ob(f"hostargs/{lo}", "xh", "hostargs", {"lo": lo, "hi": min(lo + 60, nh)}, timeout=90 if tier == "quick" else 300, group="hostargs", bounds=f"allowed calls {lo}..{min(lo + 60, nh)} of {nh} with callables reached through attributes as arguments (index symbolic, path-exhaustive)"))
    np_ = len(purity_programs())
    for lo in range(0, np_, 40):
        obs.append(ob(f"purity/{lo}", "xh", "purity", {"lo": lo, "hi": min(lo + 40, np_)}, timeout=60, group="purity", bounds=f"programs {lo}..{min(lo + 40, np_)} of {np_} (index symbolic, path-exhaustive)"))
    return obs


# ------------------------------------------------------------------------------------------------ replay
def replay(res):
    from flow.record.selector import Selector

    a = res["args"]
    gid = res["id"]
    if res["kind"] == "side":
        return {"reproduced": False, "what": "reference classification is wrong (harness error): " + res["detail"]}
    i = cex_args(res, ["i"]).get("i")
    if "sandbox" in gid:
        batch = bad_shapes(a["depth"], a["full"])[a["lo"] : a["hi"]]
        if "sandbox-idx" in gid:
            bits = cex_args(res, ["b0", "b1", "b2", "b3", "b4", "b5", "b6"])
            i = sum((1 << k) for k in range(7) if bits.get(f"b{k}"))
            if 0 <= i < len(batch):
                batch = [batch[i]] + batch
        for j in range(len(batch)):
            src = batch[j]
            rec = make_record()
            before = repr(rec._packdict())
            del LOG[:]
            try:
                out = Selector(src).match(rec)
                raised = None
            except Exception as e:  # noqa: BLE001
                out, raised = None, type(e).__name__
            fired = list(LOG)
            if raised is None or fired or repr(rec._packdict()) != before:
                return {
                    "reproduced": True,
                    "key": f"C09/sandbox/{src}",
                    "what": f"Selector({src!r}) was not refused: " + (f"evaluated to {out!r}" if raised is None else f"raised {raised} only after invoking {fired}") + (f"; invoked {fired}" if fired and raised is None else ""),
                    "input": {"expr": src},
                }
        return {"reproduced": False, "what": "all shapes of the batch are refused"}
    if "hostargs" in gid:
        for src in hostile_arguments()[a["lo"] : a["hi"]]:
            rec = make_record(_helper_callee(src))
            before = repr(rec._packdict())
            del LOG[:]
            try:
                Selector(src).match(rec)
            except Exception:  # noqa: BLE001
                pass
            fired = list(LOG)
            if fired or repr(rec._packdict()) != before:
                return {"reproduced": True, "key": f"C09/hostargs/{src}", "what": f"Selector({src!r}): " + (f"invoked {fired}" if fired else f"modified the record: {before} -> {rec._packdict()!r}"), "input": {"expr": src}}
        return {"reproduced": False, "what": "nothing invoked, record unchanged"}
    if "purity" in gid:
        progs = purity_programs()[a["lo"] : a["hi"]]
        idxs = [i] if isinstance(i, int) and 0 <= i < len(progs) else range(len(progs))
        for j in idxs:
            src = progs[j]
            rec = purity_record()
            before = repr(rec)
            try:
                Selector(src).match(rec)
            except Exception:  # noqa: BLE001
                pass
            if repr(rec) != before:
                return {"reproduced": True, "key": f"C09/purity/{src}", "what": f"evaluating Selector({src!r}) modified the record: {before} -> {rec!r}", "input": {"expr": src}}
        return {"reproduced": False, "what": "record unchanged"}
    return {"reproduced": False, "what": "no replay"}
