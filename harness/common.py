"""Helpers shared by the harness modules (stand-ins and small utilities)."""
import os
import shutil
import tempfile
from contextlib import contextmanager

from vf.ob import Ob


class OutcomeSelector:
    """Uninterpreted selector: match() returns the i-th of N symbolic booleans; stands for every selector."""

    def __init__(self, outcomes):
        self.outcomes = outcomes
        self.i = 0
        self.seen = []

    def match(self, rec):
        self.seen.append(rec)
        b = self.outcomes[self.i]
        self.i += 1
        return b


@contextmanager
def tempdir():
    d = tempfile.mkdtemp(prefix="vf-")
    try:
        yield d
    finally:
        shutil.rmtree(d, ignore_errors=True)


def cex_args(res, names):
    """Map a CrossHair counterexample (positional/keyword) onto parameter names."""
    cex = res.get("cex") or {}
    out = {}
    pos = cex.get("pos") or []
    kw = cex.get("kw") or {}
    for i, n in enumerate(names):
        if i < len(pos):
            out[n] = pos[i]
        elif n in kw:
            out[n] = kw[n]
    return out


def mk(module, pid):
    """Return an Ob constructor bound to a harness module."""

    def ob(id, kind, factory, args=None, timeout=20.0, group=None, bounds="", hunt_only=False):
        return Ob(
            id=f"{pid}/{id}",
            kind=kind,
            module=module,
            factory=factory,
            args=args or {},
            timeout=timeout,
            group=group or id.split("/")[0],
            bounds=bounds,
            hunt_only=hunt_only,
        )

    return ob


def env_int(name, default):
    try:
        return int(os.environ.get(name, default))
    except ValueError:
        return default
