"""C18 - SQLite export keeps every record, independent of the batch size (transaction machine, schema evolution, value mapping,
pagination, quoting / name filters).

The real SqliteWriter / SqliteReader run under CrossHair against a stand-in connection that models the statements the adapter
issues (explicit BEGIN / COMMIT with isolation_level=None, rows visible to another connection at COMMIT, CREATE TABLE IF NOT EXISTS,
PRAGMA table_info, ALTER TABLE ADD COLUMN, INSERT with bound values, SELECT * with fetchmany). A statement the model does not know makes
the obligation inconclusive, never an alarm. Replays and the side battery use the real sqlite3.
"""
import ast
import datetime as _dt
import itertools
import os
import re
import time

from crosshair.tracers import NoTracing

from harness.common import cex_args, mk, tempdir
from vf.ob import HarnessInconclusive

PROPERTY = "C18"
FUNCTIONS = [
    "flow.record.adapter.sqlite:SqliteWriter.write",
    "flow.record.adapter.sqlite:SqliteWriter.tx_cycle",
    "flow.record.adapter.sqlite:SqliteWriter.flush",
    "flow.record.adapter.sqlite:SqliteWriter.close",
    "flow.record.adapter.sqlite:create_descriptor_table",
    "flow.record.adapter.sqlite:update_descriptor_columns",
    "flow.record.adapter.sqlite:prepare_insert_sql",
    "flow.record.adapter.sqlite:db_insert_record",
    "flow.record.adapter.sqlite:SqliteReader.read_table",
    "flow.record.adapter.sqlite:SqliteReader.table_names",
    "flow.record.adapter.sqlite:SqliteReader.__iter__",
]
BOUNDS = {
    "step": "count: all ints >= 0, batch_size in 1..8 (one obligation each) and symbolic in [1, 2^31), descriptor seen / new",
    "histories": "3 (4 thorough) records over a universe of 6 descriptors (same name with grown / swapped / shrunk field sets, other names), batch_size in [1, 4] symbolic",
    "values": "candidate table of 16 value kinds per field, position symbolic",
    "reader": "N <= 5 rows, reader batch size in [1, 6] symbolic",
    "names": "all strings (regex theory) for the name filter of table_names and the quoting; a battery of SQL keywords / special column names through the real sqlite3",
}
STUBS = ["sqlite3.Connection / Cursor: statement-level model (see FakeCon); unknown statements make the obligation inconclusive"]
OUTSIDE = ["SQLite's type affinity and storage", "isolation between real connections (replayed with a second real connection)", "duckdb subclasses"]
ASSUMPTIONS = ["reference commit-point model: a commit happens before the first record of a new descriptor, after every batch_size-th record, and at close"]

ob = mk("harness.C18", PROPERTY)
UTC = _dt.timezone.utc


class UnknownSQL(Exception):
    pass


class FakeCursor:
    def __init__(self, rows):
        self.rows = list(rows)
        self.pos = 0

    def fetchall(self):
        out = self.rows[self.pos :]
        self.pos = len(self.rows)
        return out

    def fetchmany(self, n):
        # n is the reader's (possibly symbolic) batch size
        out = []
        k = 0
        while k < n and self.pos < len(self.rows):
            out.append(self.rows[self.pos])
            self.pos += 1
            k += 1
        return out

    def fetchone(self):
        r = self.fetchmany(1)
        return r[0] if r else None

    def __iter__(self):
        return iter(self.fetchall())


RE_CREATE = re.compile(r'^CREATE TABLE IF NOT EXISTS "((?:[^"]|"")+)" \(\n(.*)\n\)$', re.S)
RE_COLDEF = re.compile(r'^\s*"((?:[^"]|"")+)" ([A-Z ]+)$')
RE_PRAGMA = re.compile(r'^PRAGMA table_info\("((?:[^"]|"")+)"\)$')
RE_ALTER = re.compile(r'^\s*ALTER TABLE "((?:[^"]|"")+)" ADD COLUMN "((?:[^"]|"")+)" ([A-Z ]+)$')
RE_INSERT = re.compile(r'^INSERT INTO "((?:[^"]|"")+)" \((.*)\) VALUES \(([?, ]*)\)$')
RE_SELECT_ALL = re.compile(r'^SELECT \* FROM "((?:[^"]|"")+)"$')


class FakeCon:
    """statement-level model of sqlite3.Connection(isolation_level=None)"""

    def __init__(self):
        self.in_transaction = False
        self.affinity = True  # bound values are stored the way the declared column type's affinity dictates
        self.log = []
        self.tables = {}  # name -> [(col, type)]
        self.rows = []  # (table, {col: value}) in insertion order, all rows (pending included)
        self.visible = 0  # number of rows another connection sees
        self.visible_ddl = 0
        self.ddl = 0
        self.autocommit_inserts = 0
        self.closed = 0
        self.snapshots = []

    def _commit(self):
        self.visible = len(self.rows)
        self.visible_ddl = self.ddl

    def execute(self, sql, values=None):
        if self.closed:
            raise ValueError("Cannot operate on a closed database.")
        with NoTracing():
            kind = sql.split()[0].upper()
        self.log.append(kind)
        if kind == "BEGIN":
            if self.in_transaction:
                raise ValueError("cannot start a transaction within a transaction")
            self.in_transaction = True
            return FakeCursor([])
        if kind == "COMMIT":
            if not self.in_transaction:
                raise ValueError("cannot commit - no transaction is active")
            self.in_transaction = False
            self._commit()
            return FakeCursor([])
        with NoTracing():
            m = RE_CREATE.match(sql)
            if m:
                name = m.group(1)
                cols = []
                for line in m.group(2).split(",\n"):
                    c = RE_COLDEF.match(line)
                    if not c:
                        raise UnknownSQL(sql)
                    cols.append((c.group(1), c.group(2)))
                if name not in self.tables:
                    if len(set(c for c, _ in cols)) != len(cols):
                        raise ValueError("duplicate column name")
                    self.tables[name] = cols
                    self.ddl += 1
                out = []
            elif RE_PRAGMA.match(sql):
                name = RE_PRAGMA.match(sql).group(1)
                out = [(i, c, t, 0, None, 0) for i, (c, t) in enumerate(self.tables.get(name, []))]
            elif RE_ALTER.match(sql):
                name, col, typ = RE_ALTER.match(sql).groups()
                if name not in self.tables or col in [c for c, _ in self.tables[name]]:
                    raise ValueError("duplicate column name / no such table")
                self.tables[name].append((col, typ))
                self.ddl += 1
                out = []
            elif RE_INSERT.match(sql):
                name, cols, marks = RE_INSERT.match(sql).groups()
                cols = [c.strip()[1:-1] for c in cols.split(", ")]
                if name not in self.tables:
                    raise ValueError(f"no such table: {name}")
                have = [c for c, _ in self.tables[name]]
                for c in cols:
                    if c not in have:
                        raise ValueError(f"table {name} has no column named {c}")
                if marks.count("?") != len(cols) or len(values) != len(cols):
                    raise ValueError("Incorrect number of bindings supplied")
                decl = dict(self.tables[name])
                self.rows.append((name, {c: (_stored(v, decl[c]) if self.affinity else v) for c, v in zip(cols, values)}))
                if not self.in_transaction:
                    self.autocommit_inserts += 1
                out = []
            else:
                raise UnknownSQL(sql)
        if not self.in_transaction:
            self._commit()
        return FakeCursor(out)

    def commit(self):
        if self.in_transaction:
            self.in_transaction = False
        self._commit()

    def close(self):
        # an open transaction is rolled back
        if self.in_transaction:
            del self.rows[self.visible :]
            self.in_transaction = False
        self.closed += 1


def _writer(batch):
    from flow.record.adapter.sqlite import SqliteWriter

    con = FakeCon()
    w = object.__new__(SqliteWriter)
    w.descriptors_seen = set()
    w.con = con
    w.count = 0
    w.batch_size = batch
    w.tx_cycle()
    return w, con


# ------------------------------------------------------------------------------------------------ O1 inductive step
def step(batch: int = 0):
    from flow.record import RecordDescriptor

    D = RecordDescriptor("t/s", [("varint", "n")])
    REC = D(1, _generated=_dt.datetime(2020, 1, 1, tzinfo=UTC))

    def check(count: int, b: int, seen: bool) -> bool:
        """
        post: _
        """
        bs = batch if batch else b
        if not (count >= 0 and 1 <= bs < 2**31):
            return True
        w, con = _writer(bs)
        if seen:
            w.write(REC)  # brings the table into existence and the writer into its steady state
        w.count = count
        base_rows = len(con.rows)
        del con.log[:]
        try:
            w.write(REC)
        except UnknownSQL as e:
            raise HarnessInconclusive(f"statement not modelled: {e}")
        log = con.log
        ins = -1
        n_ins = 0
        for i, k in enumerate(log):
            if k == "INSERT":
                n_ins += 1
                ins = i
        if n_ins != 1 or len(con.rows) != base_rows + 1 or con.autocommit_inserts:
            return False
        commit_after = False
        commit_before = False
        for i, k in enumerate(log):
            if k == "COMMIT" and i > ins:
                commit_after = True
            if k == "COMMIT" and i < ins:
                commit_before = True
        if commit_after != ((count + 1) % bs == 0):
            return False
        if commit_before != (not seen):
            return False
        # invariant re-established: a transaction is open, the count advanced by one
        return con.in_transaction and w.count == count + 1

    return check


# ------------------------------------------------------------------------------------------------ O2 histories / schema evolution
UNIVERSE = [
    ("t/e", [("string", "a"), ("varint", "b")]),
    ("t/e", [("string", "a"), ("varint", "b"), ("string", "c")]),  # grown
    ("t/e", [("string", "a"), ("string", "c")]),  # one field replaced, same size
    ("t/e", [("varint", "d")]),  # smaller, one new field
    ("t/other", [("string", "a")]),
    ("T/E", [("string", "z")]),  # differs only by case from t/e
]


NUMERIC_LOOKING = {1: "007", 2: "1e3", 3: " 42", 5: "12.50", 6: "-0"}  # text that a column without TEXT affinity would turn into a number


def _vals(ui, i):
    out = {}
    for t, f in UNIVERSE[ui][1]:
        out[f] = (100 + i) if t == "varint" else NUMERIC_LOOKING.get(i, f"{f}{i}")
    return out


RE_NUMERIC_TEXT = re.compile(r"^\s*[+-]?(\d+\.?\d*|\.\d+)([eE][+-]?\d+)?\s*$")


def _affinity(decl):
    """SQLite's column affinity from the declared type (datatype3.html, 3.1)"""
    d = decl.upper()
    if "INT" in d:
        return "INTEGER"
    if "CHAR" in d or "CLOB" in d or "TEXT" in d:
        return "TEXT"
    if "BLOB" in d or not d.strip():
        return "BLOB"
    if "REAL" in d or "FLOA" in d or "DOUB" in d:
        return "REAL"
    return "NUMERIC"


def _stored(value, decl):
    """the value SQLite stores for a bound value in a column declared `decl` (type affinity applied on insert)"""
    aff = _affinity(decl)
    if isinstance(value, bool) or value is None or isinstance(value, bytes) or aff == "BLOB":
        return value
    if aff == "TEXT":
        return value if isinstance(value, str) else (str(value) if isinstance(value, int) else repr(value))
    if isinstance(value, str):
        if not RE_NUMERIC_TEXT.match(value):
            return value
        v = float(value)
        if aff != "REAL" and v.is_integer() and abs(v) < 2**63:
            return int(v)
        return v
    if isinstance(value, int) and aff == "REAL":
        return float(value)
    if isinstance(value, float) and aff != "REAL" and value.is_integer() and abs(value) < 2**63:
        return int(value)
    return value


def history(k: int = 3, first: int = 0, batch: int = 1):
    from flow.record import RecordDescriptor

    descs = [RecordDescriptor(n, fs) for n, fs in UNIVERSE]
    GEN = _dt.datetime(2020, 1, 1, tzinfo=UTC)

    def check(u1: int, u2: int, u3: int, flush_at: int) -> bool:
        """
        post: _
        """
        us = [first, u1, u2, u3][:k]
        for u in us:
            if not (0 <= u < len(UNIVERSE)):
                return True
        if not (1 <= batch <= 4 and -1 <= flush_at < k):
            return True
        w, con = _writer(batch)
        seen = []
        exp_visible = []
        last_commit = 0
        written = []
        try:
            i = 0
            for u in us:
                ui = 0
                for j in range(len(UNIVERSE)):
                    if u == j:
                        ui = j
                rec = descs[ui](_generated=GEN, **_vals(ui, i))
                w.write(rec)
                written.append((ui, i))
                i += 1
                # reference commit points
                if ui not in seen:
                    seen.append(ui)
                    last_commit = i - 1
                if i % batch == 0:
                    last_commit = i
                if flush_at == i - 1:
                    w.flush()
                    last_commit = i
                exp_visible.append(last_commit)
                con.snapshots.append(con.visible)
            w.close()
        except UnknownSQL as e:
            raise HarnessInconclusive(f"statement not modelled: {e}")
        except Exception:  # noqa: BLE001
            return False
        with NoTracing():
            if con.autocommit_inserts or con.closed < 1:
                return False
            # what another connection could see after each write is exactly the rows up to the last commit point
            if con.snapshots != exp_visible:
                return False
            # after close: every record is a committed row of its type's table, in write order, holding its own values
            if len(con.rows) != len(written) or con.visible != len(written):
                return False
            for (table, row), (ui, i) in zip(con.rows, written):
                name, fields = UNIVERSE[ui]
                if table != name:
                    return False
                vals = _vals(ui, i)
                for t, f in fields:
                    if row.get(f) != vals[f]:
                        return False
                cols = [c for c, _ in con.tables[name]]
                for t, f in fields:
                    if f not in cols:
                        return False
            # one table per type name, whose columns are the union of the fields seen (plus the reserved ones)
            for name in set(n for n, _ in UNIVERSE):
                uis = [ui for ui, _ in written if UNIVERSE[ui][0] == name]
                if not uis:
                    if name in con.tables:
                        return False
                    continue
                want = []
                for ui in uis:
                    for t, f in UNIVERSE[ui][1]:
                        if f not in want:
                            want.append(f)
                cols = [c for c, _ in con.tables[name] if not c.startswith("_")]
                if cols != want:
                    return False
            return True
        return False

    return check


# ------------------------------------------------------------------------------------------------ O3 value mapping
def _candidates():
    from flow.record.fieldtypes import net, path

    return [
        None,
        0,
        -1,
        2**63 - 1,
        -(2**63),
        1.5,
        float("-0.0"),
        True,
        False,
        b"",
        b"\x00\xff",
        "",
        "téxt",
        _dt.datetime(2021, 2, 3, 4, 5, 6, 789, tzinfo=UTC),
        _dt.datetime(2021, 2, 3, 4, 5, 6, tzinfo=_dt.timezone(_dt.timedelta(hours=-7))),
        path.from_posix("/a/b"),
        net.ipaddress("1.2.3.4"),
        ["x", "y"],
    ]


def _ref_bound(v):
    if isinstance(v, _dt.datetime):
        return v.isoformat()
    if v is None or isinstance(v, (bytes, int, bool, float)):
        return v
    return str(v)


def values():
    from flow.record import RecordDescriptor
    from flow.record.adapter.sqlite import db_insert_record

    D = RecordDescriptor("t/v", [("record", "x"), ("record", "y")])
    cands = _candidates()

    def check(i: int, j: int) -> bool:
        """
        post: _
        """
        if not (0 <= i < len(cands) and 0 <= j < len(cands)):
            return True
        x = y = None
        for q in range(len(cands)):
            if i == q:
                x = cands[q]
            if j == q:
                y = cands[q]
        con = FakeCon()
        con.affinity = False  # this obligation is about the bound values alone; the columns are placeholders
        con.tables["t/v"] = [("x", "TEXT"), ("y", "TEXT"), ("_source", "TEXT"), ("_classification", "TEXT"), ("_generated", "TIMESTAMPTZ"), ("_version", "INTEGER")]
        rec = D(x, y, _source="S", _generated=_dt.datetime(2020, 1, 1, tzinfo=UTC))
        try:
            db_insert_record(con, rec)
        except UnknownSQL as e:
            raise HarnessInconclusive(f"statement not modelled: {e}")
        with NoTracing():
            if len(con.rows) != 1:
                return False
            row = con.rows[0][1]
            ex, ey = _ref_bound(x), _ref_bound(y)
            ok = type(row["x"]) is type(ex) and type(row["y"]) is type(ey) and repr(row["x"]) == repr(ex) and repr(row["y"]) == repr(ey)
            return ok and row["_source"] == "S" and row["_generated"] == "2020-01-01T00:00:00+00:00" and row["_version"] == 1 and row["_classification"] is None
        return False

    return check


# ------------------------------------------------------------------------------------------------ O4 reader pagination
class ReadCon:
    """connection model for the reader: sqlite_master listing, pragma_table_info(?), SELECT * with fetchmany"""

    def __init__(self, tables, rows):
        self.tables = tables
        self.rows = rows

    def execute(self, sql, params=None):
        with NoTracing():
            s = " ".join(sql.split())
            if s == "SELECT name FROM sqlite_master WHERE type='table'":
                return FakeCursor([(n,) for n in self.tables])
            if s == "SELECT c.type, c.name FROM pragma_table_info(?) c":
                name = params[0]
                return FakeCursor([(t, c) for c, t in self.tables.get(name, [])])
            m = RE_SELECT_ALL.match(s)
            if m:
                return FakeCursor(self.rows.get(m.group(1).replace('""', '"'), []))
            raise UnknownSQL(sql)


def reader(n: int = 3, m: int = 2):
    from flow.record.adapter.sqlite import SqliteReader

    def check(batch: int) -> bool:
        """
        post: _
        """
        if not (1 <= batch <= n + 2):
            return True
        rows_a = []
        i = 0
        while i < n:
            rows_a.append((f"s{i}", i, None if i == 1 else b"b%d" % i, 1.5 * i, "2020-01-01T00:00:0%d+00:00" % i, "src", None, "2020-01-01T00:00:00+00:00", 1))
            i += 1
        rows_b = []
        i = 0
        while i < m:
            rows_b.append((i,))
            i += 1
        tables = {
            "t/a": [("s", "TEXT"), ("n", "BIGINT"), ("b", "BLOB"), ("f", "REAL"), ("ts", "TIMESTAMPTZ"), ("_source", "TEXT"), ("_classification", "TEXT"), ("_generated", "TIMESTAMPTZ"), ("_version", "INTEGER")],
            "empty": [("x", "TEXT")],
            "t/b": [("rowid", "BIGINT")],
        }
        rd = object.__new__(SqliteReader)
        rd.selector = None
        rd.descriptors_seen = set()
        rd.con = ReadCon(tables, {"t/a": rows_a, "t/b": rows_b})
        rd.count = 0
        rd.batch_size = batch
        try:
            got = list(rd)
        except UnknownSQL as e:
            raise HarnessInconclusive(f"statement not modelled: {e}")
        except Exception:  # noqa: BLE001
            return False
        with NoTracing():
            a = [r for r in got if r._desc.name == "t/a"]
            b = [r for r in got if r._desc.name == "t/b"]
            if len(got) != len(rows_a) + len(rows_b) or got != a + b:
                return False
            for r, row in zip(a, rows_a):
                if (r.s, r.n, r.b, r.f, r._source) != (row[0], row[1], row[2], row[3], "src") or r.ts.isoformat() != row[4]:
                    return False
                if [t for t, f in r._desc.get_field_tuples()] != ["string", "varint", "bytes", "float", "datetime"]:
                    return False
            return [r.rowid for r in b] == [row[0] for row in rows_b]
        return False

    return check


# ------------------------------------------------------------------------------------------------ O5 names (SMT, regex theory)
def _sql_strings(qualname):
    from vf.smt.kse import get_function_ast

    fn, mod, _ = get_function_ast(qualname)
    out = []
    for n in ast.walk(fn):
        if isinstance(n, ast.Constant) and isinstance(n.value, str) and re.search(r"\bSELECT\b", n.value, re.I):
            out.append(n.value)
    return out


def _like_to_re(pat):
    """SQLite LIKE: % = any sequence, _ = any one character, ASCII letters case-insensitive"""
    import z3

    parts = []
    for ch in pat:
        if ch == "%":
            parts.append(z3.Full(z3.ReSort(z3.StringSort())))
        elif ch == "_":
            parts.append(z3.AllChar(z3.ReSort(z3.StringSort())))
        elif ch.isascii() and ch.isalpha():
            parts.append(z3.Union(z3.Re(ch.lower()), z3.Re(ch.upper())))
        else:
            parts.append(z3.Re(ch))
    if not parts:
        return z3.Re("")
    return z3.Concat(*parts) if len(parts) > 1 else parts[0]


def table_filter_smt(cross: bool = False):
    """No valid record type name is filtered out by the WHERE clause of SqliteReader.table_names (taken from its source):
    exists name in L(RE_VALID_RECORD_TYPE_NAME) that the clause rejects?  unsat = every exported table is read back."""
    import z3

    import flow.record.base as B
    from vf.smt import regex as R

    queries = 0
    solver_s = 0.0
    sqls = _sql_strings("flow.record.adapter.sqlite:SqliteReader.table_names")
    if len(sqls) != 1:
        return {"verdict": "unknown", "detail": f"{len(sqls)} SELECT statements in table_names", "queries": 0, "solver_s": 0.0}
    sql = " ".join(sqls[0].split())
    m = re.match(r"^SELECT name FROM sqlite_master(?: WHERE (.*))?$", sql, re.I)
    if not m:
        return {"verdict": "unknown", "detail": f"statement shape not recognised: {sql}", "queries": 0, "solver_s": 0.0}
    name = z3.String("name")
    valid = z3.InRe(name, R.to_z3(B.RE_VALID_RECORD_TYPE_NAME.pattern, "match"))
    keep = []
    for conj in re.split(r"\s+AND\s+", m.group(1) or "", flags=re.I):
        c = conj.strip()
        if not c or re.match(r"^type\s*=\s*'table'$", c, re.I):
            continue
        mm = re.match(r"^name\s+NOT\s+LIKE\s+'([^'\\]*)'$", c, re.I)
        if mm:
            keep.append(z3.Not(z3.InRe(name, _like_to_re(mm.group(1)))))
            continue
        mm = re.match(r"^name\s+LIKE\s+'([^'\\]*)'$", c, re.I)
        if mm:
            keep.append(z3.InRe(name, _like_to_re(mm.group(1))))
            continue
        mm = re.match(r"^name\s*(?:!=|<>)\s*'([^']*)'$", c, re.I)
        if mm:
            keep.append(name != z3.StringVal(mm.group(1)))
            continue
        mm = re.match(r"^name\s+NOT\s+IN\s*\(([^)]*)\)$", c, re.I)
        if mm:
            for lit in re.findall(r"'([^']*)'", mm.group(1)):
                keep.append(name != z3.StringVal(lit))
            continue
        return {"verdict": "unknown", "detail": f"WHERE conjunct not translatable: {c}", "queries": 0, "solver_s": 0.0}
    s = z3.Solver()
    s.set("timeout", 60000)
    s.add(valid)
    t = time.time()
    r0 = s.check()
    s.add(z3.Not(z3.And(*keep)) if keep else z3.BoolVal(False))
    r = s.check()
    solver_s += time.time() - t
    queries += 2
    if str(r0) != "sat":
        return {"verdict": "unknown", "detail": f"no valid name? {r0}", "queries": queries, "solver_s": solver_s}
    if str(r) == "sat":
        w = R.model_string(s.model(), name)
        return {"verdict": "sat", "model": {"name": w}, "detail": f"valid record type name {w!r} is filtered out by: {sql}", "queries": queries, "solver_s": solver_s}
    if str(r) != "unsat":
        return {"verdict": "unknown", "detail": str(r), "queries": queries, "solver_s": solver_s}
    return {"verdict": "unsat", "detail": f"no valid type name is rejected by: {sql}", "queries": queries, "solver_s": solver_s, "functions": ["flow.record.adapter.sqlite:SqliteReader.table_names"]}


def quoting_smt():
    """No valid record type name or field name contains a double quote, so the f'"{name}"' quoting of the statements cannot be left;
    and the quoting is what the statements use (every {name} placeholder in the SQL f-strings is wrapped in double quotes)."""
    import z3

    import flow.record.base as B
    from vf.smt import regex as R
    from vf.smt.kse import get_function_ast

    queries = 0
    t0 = time.time()
    for pat in (B.RE_VALID_RECORD_TYPE_NAME.pattern, B.RE_VALID_FIELD_NAME.pattern):
        x = z3.String("x")
        s = z3.Solver()
        s.set("timeout", 60000)
        s.add(z3.InRe(x, R.to_z3(pat, "match")), z3.Contains(x, z3.StringVal('"')))
        r = s.check()
        queries += 1
        if str(r) == "sat":
            w = R.model_string(s.model(), x)
            return {"verdict": "sat", "model": {"name": w}, "detail": f"valid name {w!r} contains a double quote", "queries": queries, "solver_s": time.time() - t0}
        if str(r) != "unsat":
            return {"verdict": "unknown", "detail": str(r), "queries": queries, "solver_s": time.time() - t0}
    # syntactic side of the argument: identifiers are interpolated only inside double quotes
    for q in ("create_descriptor_table", "update_descriptor_columns", "prepare_insert_sql"):
        fn, _, _ = get_function_ast("flow.record.adapter.sqlite:" + q)
        for n in ast.walk(fn):
            if isinstance(n, ast.JoinedStr):
                vals = n.values
                for i, v in enumerate(vals):
                    if isinstance(v, ast.FormattedValue) and isinstance(v.value, ast.Name) and v.value.id in ("table_name", "column_name", "name"):
                        before = vals[i - 1].value if i > 0 and isinstance(vals[i - 1], ast.Constant) else ""
                        after = vals[i + 1].value if i + 1 < len(vals) and isinstance(vals[i + 1], ast.Constant) else ""
                        if not (before.endswith('"') and after.startswith('"')):
                            return {"verdict": "sat", "model": {"function": q}, "detail": f"{q}: identifier {v.value.id} is interpolated without double quotes", "queries": queries, "solver_s": time.time() - t0}
    return {"verdict": "unsat", "detail": "no valid name contains '\"'; identifiers are always double-quoted", "queries": queries, "solver_s": time.time() - t0}


# ------------------------------------------------------------------------------------------------ real sqlite battery (side) and replay
def _dump(path):
    import sqlite3

    con = sqlite3.connect(path)
    try:
        out = {}
        for (t,) in con.execute("SELECT name FROM sqlite_master WHERE type='table' ORDER BY name").fetchall():
            cols = [r[1] for r in con.execute(f'PRAGMA table_info("{t}")').fetchall()]
            out[t] = (cols, con.execute(f'SELECT * FROM "{t}" ORDER BY rowid').fetchall())
        return out
    finally:
        con.close()


def _real_run(seq, batch, observe=True):
    """write the (universe index, i) sequence with the real writer; returns (problems, dump)"""
    import sqlite3

    from flow.record import RecordDescriptor, RecordWriter

    descs = [RecordDescriptor(n, fs) for n, fs in UNIVERSE]
    GEN = _dt.datetime(2020, 1, 1, tzinfo=UTC)
    probs = []
    with tempdir() as d:
        p = os.path.join(d, "o.db")
        w = RecordWriter(f"sqlite://{p}?batch_size={batch}")
        obs = sqlite3.connect(p)
        seen = []
        last_commit = 0
        try:
            for i, ui in enumerate(seq, start=1):
                try:
                    w.write(descs[ui](_generated=GEN, **_vals(ui, i - 1)))
                except Exception as e:  # noqa: BLE001
                    probs.append(f"write #{i} ({UNIVERSE[ui]}) raised {type(e).__name__}: {e}")
                    break
                if ui not in seen:
                    seen.append(ui)
                    last_commit = i - 1
                if i % batch == 0:
                    last_commit = i
                if observe:
                    n = 0
                    for (t,) in obs.execute("SELECT name FROM sqlite_master WHERE type='table'").fetchall():
                        n += obs.execute(f'SELECT count(*) FROM "{t}"').fetchone()[0]
                    if n != last_commit:
                        probs.append(f"after write #{i} (batch_size={batch}, sequence {seq}) another connection sees {n} rows, commit points allow {last_commit}")
                        break
        finally:
            obs.close()
            w.close()
        dump = _dump(p)
        total = sum(len(rows) for _, rows in dump.values())
        if not probs and total != len(seq):
            probs.append(f"{total} rows stored for {len(seq)} records (batch_size={batch}, sequence {seq})")
        if not probs:
            from flow.record import RecordReader

            back = list(RecordReader(f"sqlite://{p}"))
            if len(back) != len(seq):
                probs.append(f"RecordReader returns {len(back)} records for {len(seq)} written (sequence {seq})")
            else:
                want = sorted(((UNIVERSE[ui][0].lower(), tuple(sorted(_vals(ui, i).items()))) for i, ui in enumerate(seq)), key=repr)
                got = sorted(((r._desc.name.lower(), tuple(sorted((f, getattr(r, f)) for f in _vals_fields(r) if getattr(r, f) is not None))) for r in back), key=repr)
                if got != want:
                    probs.append(f"records read back differ (sequence {seq}): {got[:3]} vs written {want[:3]}")
    return probs, dump


def _vals_fields(r):
    return [f for _, f in r._desc.get_field_tuples()]


SEQS = [[0, 0, 0, 0, 0], [0, 1, 0, 1, 1, 0], [1, 0, 2, 3], [0, 2, 2, 0], [3, 0, 4, 3, 1], [0, 4, 4, 0, 4, 4, 0], [2, 3, 1, 0], [0, 0, 1, 1, 1, 1, 1, 0, 0, 0, 0]]


def real_battery():
    bad = []
    n = 0
    for seq in SEQS:
        dumps = {}
        for batch in (1, 2, 3, 5, 1000):
            probs, dump = _real_run(seq, batch)
            n += 1
            bad += probs
            dumps[batch] = dump
        if len(set(repr(sorted(dd.items())) for dd in dumps.values())) != 1:
            bad.append(f"stored content depends on the batch size for sequence {seq}")
    return {"ok": not bad, "detail": f"{n} runs with an observer connection; " + "; ".join(bad[:2]), "cex": {"kw": {"bad": bad[:5]}}}


NAME_BATTERY_FIELDS = ["rowid", "oid", "order", "group", "select", "from", "where", "values", "index", "table", "key", "null", "default", "name", "type", "Rowid", "x__rowid_"]
NAME_BATTERY_TYPES = ["sqlite/history", "sqliteparser/page", "SQLite3/info", "select/from", "Table", "a/b/c", "order", "x"]


def names_battery():
    """arbitrary valid names through the real sqlite3: SQL keywords and SQLite's special column names as field names, type names
    that look like internal tables; values None / negative / duplicate / unsorted; several reader batch sizes"""
    import sqlite3

    from flow.record import RecordDescriptor, RecordReader, RecordWriter

    bad = []
    n = 0
    for fname in NAME_BATTERY_FIELDS:
        for tname in ("t/names", NAME_BATTERY_TYPES[n % len(NAME_BATTERY_TYPES)]):
            n += 1
            D = RecordDescriptor(tname, [("varint", fname), ("string", "other")])
            vals = [5, 3, None, -2, 3, 9, 0, 3, 7, None, 1, 3]
            with tempdir() as d:
                p = os.path.join(d, "o.db")
                try:
                    w = RecordWriter(f"sqlite://{p}?batch_size=4")
                    for i, v in enumerate(vals):
                        w.write(D(v, f"o{i}"))
                    w.close()
                    con = sqlite3.connect(p)
                    stored = con.execute(f'SELECT "{fname}", "other" FROM "{tname}" ORDER BY rowid').fetchall() if fname.lower() not in ("rowid", "oid") else con.execute(f'SELECT * FROM "{tname}"').fetchall()
                    con.close()
                    if len(stored) != len(vals):
                        bad.append(f"type {tname!r} field {fname!r}: {len(stored)} rows stored for {len(vals)} records")
                    for rb in (1, 2, 5, 12, 1000):
                        back = [(getattr(r, fname), r.other) for r in RecordReader(f"sqlite://{p}?batch_size={rb}")]
                        if back != [(v, f"o{i}") for i, v in enumerate(vals)]:
                            bad.append(f"type {tname!r} with a field named {fname!r}, reader batch_size={rb}: read back {len(back)} records {back[:4]}..., written {len(vals)} in order {[(v) for v in vals][:4]}...")
                            break
                except Exception as e:  # noqa: BLE001
                    bad.append(f"type {tname!r} field {fname!r}: {type(e).__name__}: {e}")
    # several record types in ONE database whose names are look-alikes for SQL pattern matching ('_' and '%' are LIKE wildcards,
    # LIKE ignores case) or differ in case only: one table per type name, each with its own rows
    for names in (("t/axb", "t/a_b"), ("t/a_b", "t/axb"), ("t/abc", "t/a%"), ("t/a%c".replace("%", "_"), "t/abc", "t/a_c"), ("T/Name", "t/name"), ("t/x_", "t/xy", "t/x_y")):
        n += 1
        with tempdir() as d:
            p = os.path.join(d, "m.db")
            try:
                valid = []
                for tn in names:
                    try:
                        valid.append((tn, RecordDescriptor(tn, [("varint", "v"), ("string", "tag")])))
                    except Exception:  # noqa: BLE001 - not a valid type name (e.g. '%'): not part of the claim
                        pass
                w = RecordWriter(f"sqlite://{p}?batch_size=3")
                want = {}
                for i in range(7):
                    tn, D = valid[i % len(valid)]
                    w.write(D(i, tn))
                    want.setdefault(tn, []).append(i)
                w.close()
                got = {}
                for r in RecordReader(f"sqlite://{p}"):
                    got.setdefault(r._desc.name, []).append(int(r.v))
                if got != want:
                    bad.append(f"types {[t for t, _ in valid]} in one database: read back {got}, written {want}")
            except Exception as e:  # noqa: BLE001
                bad.append(f"types {list(names)} in one database: {type(e).__name__}: {e}")
    return {"ok": not bad, "detail": f"{n} name combinations; " + "; ".join(bad[:2]), "cex": {"kw": {"bad": bad[:5]}}}


def obligations(tier, seed):
    to = 60 if tier == "quick" else 300
    obs = []
    for b in range(1, 9):
        obs.append(ob(f"O1-step/b{b}", "xh", "step", {"batch": b}, timeout=to, group="O1-step", bounds="count: all ints >= 0; descriptor seen / new"))
    obs.append(ob("O1-step/bsym", "xh", "step", {"batch": 0}, timeout=to, group="O1-step", bounds="count >= 0 and 1 <= batch_size < 2^31 symbolic (modulo by a symbolic divisor)"))
    for first in range(len(UNIVERSE)):
        for batch in (1, 2, 3, 4):
            obs.append(ob(f"O2-history/u{first}-b{batch}", "xh", "history", {"k": 3 if tier == "quick" else 4, "first": first, "batch": batch}, timeout=to * 5, group="O2-history", bounds="descriptors of the later records from a universe of 6 and one explicit flush position symbolic; first descriptor and batch size fixed by the driver"))
    obs.append(ob("O3-values", "xh", "values", {}, timeout=to * 2, group="O3-values", bounds="18 x 18 candidate value kinds"))
    for n in range(0, 6 if tier == "quick" else 9):
        for m in (0, 2):
            obs.append(ob(f"O4-reader/n{n}-m{m}", "xh", "reader", {"n": n, "m": m}, timeout=to * 2, group="O4-reader", bounds="reader batch size in [1, n+2] symbolic; rows per table fixed by the driver"))
    obs.append(ob("O5-table-filter", "smt", "table_filter_smt", {}, timeout=120, group="O5-names", bounds="all strings (regex theory)"))
    obs.append(ob("O5-quoting", "smt", "quoting_smt", {}, timeout=120, group="O5-names", bounds="all strings (regex theory)"))
    obs.append(ob("S1-real-battery", "side", "real_battery", {}, timeout=300, group="S1-real"))
    obs.append(ob("S2-names-battery", "side", "names_battery", {}, timeout=300, group="S2-names"))
    return obs


def replay(res):
    gid = res["id"]
    if "S1-real" in gid:
        out = real_battery()
        bad = out["cex"]["kw"]["bad"]
        return {"reproduced": bool(bad), "key": "C18/real/" + (bad[0][:60] if bad else ""), "what": "; ".join(bad[:2])[:700]}
    if "S2-names" in gid:
        out = names_battery()
        bad = out["cex"]["kw"]["bad"]
        case_only = [b for b in bad if b.startswith("types ['T/Name', 't/name']")]
        if bad and len(case_only) == len(bad):
            # the recorded finding K7 (type names that differ in case only share one SQLite table); anything else keeps its own key
            return {"reproduced": True, "key": "C18/names/case-insensitive-table-names", "what": "; ".join(bad[:2])[:700]}
        other = [b for b in bad if b not in case_only]
        return {"reproduced": bool(other), "key": "C18/names/" + (other[0][:60] if other else ""), "what": "; ".join(other[:2])[:700]}
    if "O5-table-filter" in gid:
        from flow.record import RecordDescriptor, RecordReader, RecordWriter

        name = ((res.get("cex") or {}).get("kw") or {}).get("name")
        cands = ([name] if name else []) + NAME_BATTERY_TYPES
        for nm in cands:
            try:
                D = RecordDescriptor(nm, [("string", "a")])
            except Exception:  # noqa: BLE001
                continue
            with tempdir() as d:
                p = os.path.join(d, "o.db")
                w = RecordWriter("sqlite://" + p)
                w.write(D("v"))
                w.close()
                back = list(RecordReader("sqlite://" + p))
                stored = sum(len(rows) for _, rows in _dump(p).values())
                if len(back) != 1:
                    return {"reproduced": True, "key": "C18/table-filter", "what": f"a record of type {nm!r} is stored ({stored} row) but RecordReader returns {len(back)} records", "input": {"name": nm}}
        return {"reproduced": False, "what": "every candidate type name is read back"}
    if "O5-quoting" in gid:
        return {"reproduced": False, "what": "no replay for the quoting argument (names with quotes are refused by C06)"}
    if "O3-values" in gid:
        import sqlite3

        from flow.record import RecordDescriptor, RecordWriter

        cands = _candidates()
        probs = []
        with tempdir() as d:
            p = os.path.join(d, "o.db")
            D = RecordDescriptor("t/v", [("string", "s"), ("varint", "n"), ("float", "f"), ("bytes", "b"), ("datetime", "ts"), ("path", "p"), ("boolean", "bo")])
            w = RecordWriter("sqlite://" + p)
            rows = [("téxt", 2**63 - 1, 1.5, b"\x00\xff", cands[13], "/a/b", True), ("", -(2**63), -0.0, b"", cands[14], None, False), (None, None, None, None, None, None, None)]
            for r in rows:
                w.write(D(*r))
            w.close()
            con = sqlite3.connect(p)
            got = con.execute('SELECT s, n, f, b, ts, p, bo FROM "t/v" ORDER BY rowid').fetchall()
            con.close()
            want = [tuple(_ref_bound(v) if not isinstance(v, str) or i != 5 else v for i, v in enumerate(r)) for r in rows]
            if [tuple(g) for g in got] != want:
                probs.append(f"stored {got}, expected {want}")
        return {"reproduced": bool(probs), "key": "C18/values", "what": "; ".join(probs)[:600]}
    if "O4-reader" in gid:
        out = names_battery()
        bad = [b for b in out["cex"]["kw"]["bad"] if not b.startswith("types ['T/Name', 't/name']")]  # K7 is reported by S2-names
        if bad:
            return {"reproduced": True, "key": "C18/reader/" + bad[0][:60], "what": bad[0][:600]}
        probs, _ = _real_run([0, 0, 0, 0, 0, 4, 4], 2, observe=False)
        return {"reproduced": bool(probs), "key": "C18/reader", "what": "; ".join(probs)[:600]}
    # O1 / O2: transaction machine and schema evolution -> real sqlite3 with an observer connection
    cv = cex_args(res, ["u1", "u2", "u3"]) if "O2-history" in gid else {}
    if cv:
        cv["u0"] = res["args"].get("first", 0)
        cv["batch"] = res["args"].get("batch", 1)
    seqs = []
    us = [cv.get(f"u{i}") for i in range(res["args"].get("k", 3))] if cv else []
    if us and all(isinstance(u, int) and 0 <= u < len(UNIVERSE) for u in us):
        seqs.append(us)
    seqs += SEQS + [list(p) for p in itertools.product(range(len(UNIVERSE)), repeat=3)]
    batches = ([cv["batch"]] if isinstance(cv.get("batch"), int) and 1 <= cv["batch"] <= 4 else []) + [1, 2, 3, 4, 7]
    for seq in seqs:
        for b in batches:
            probs, _ = _real_run(seq, b)
            if probs:
                return {"reproduced": True, "key": "C18/" + gid.split("/")[1] + "/" + probs[0][:50], "what": probs[0][:700], "input": {"sequence": seq, "batch_size": b}}
    return {"reproduced": False, "what": "no sequence reproduces with the real sqlite3"}
