"""C14 - JSON lines output round-trips and is plain JSON (mapping layer).

Path-exhaustive over field type x candidate value of two consecutive records x descriptors on/off x indentation (symbolic
indexes; the concrete part of a path runs the real JsonRecordPacker / JsonfileWriter / JsonfileReader with the real json)."""
import datetime as _dt
import io
import json
import os

from harness.common import cex_args, mk, tempdir

PROPERTY = "C14"
FUNCTIONS = [
    "flow.record.jsonpacker:JsonRecordPacker.pack_obj",
    "flow.record.jsonpacker:JsonRecordPacker.unpack_obj",
    "flow.record.jsonpacker:JsonRecordPacker.pack",
    "flow.record.jsonpacker:JsonRecordPacker.unpack",
    "flow.record.jsonpacker:JsonRecordPacker.register",
    "flow.record.adapter.jsonfile:JsonfileWriter._write",
    "flow.record.adapter.jsonfile:JsonfileWriter.__init__",
    "flow.record.adapter.jsonfile:JsonfileReader.__iter__",
]
BOUNDS = {"types": "25 JSON-supported field types (scalar and list)", "values": "3-6 candidates per type incl. None, empty, boundary, big integers, surrogate escapes", "sequences": "two consecutive records of one type (any pair of candidates); three records of two types with a same-named field of different type (every type pair x candidates)", "configurations": "descriptors on/off x indent None/2"}
STUBS = ["none: RecordWriter(jsonfile://...) / RecordReader on temporary files with the real json module"]
OUTSIDE = ["json's own treatment of NaN/Infinity and of surrogates (C encoder)", "Windows paths and commands (JSON stores their text form only)"]
ASSUMPTIONS = ["with descriptors disabled only scalar JSON values (text, numbers, booleans, null) are compared"]

ob = mk("harness.C14", PROPERTY)
UTC = _dt.timezone.utc
MD5, SHA1 = "d41d8cd98f00b204e9800998ecf8427e", "da39a3ee5e6b4b0d3255bfef95601890afd80709"

CAND = [
    ("string", [None, "", 'a"b\n', "\udc80x", "é😀"]),
    ("wstring", [None, "w"]),
    ("varint", [None, 0, -1, 2**70, -(2**64)]),
    ("uint16", [None, 0, 65535]),
    ("uint32", [None, 4294967295]),
    ("filesize", [None, 0, 2**40]),
    ("unix_file_mode", [None, 0o755]),
    ("float", [None, 1.5, -0.0, 1e300, 0.1]),
    ("boolean", [None, True, False]),
    ("datetime", [None, _dt.datetime(2020, 1, 2, 3, 4, 5, 6, tzinfo=UTC), _dt.datetime(1969, 12, 31, 23, 59, 59, tzinfo=_dt.timezone(_dt.timedelta(hours=5, minutes=30))), _dt.datetime(9999, 12, 31, tzinfo=UTC)]),
    ("bytes", [None, b"", b"\x00\xff", b"plain"]),
    ("digest", [None, (MD5, None, None), (MD5, SHA1, None), (None, None, None)]),
    ("net.ipaddress", [None, "1.2.3.4", "::1", "0.0.0.0"]),
    ("net.ipnetwork", [None, "10.0.0.0/8", "::/0"]),
    ("uri", [None, "http://x/y?z#f", ""]),
    ("path", [None, "/a/b", "", "rel/x y"]),
    ("string[]", [None, [], ["x"], ["a", "", "\udc80"]]),
    ("varint[]", [None, [], [0, 2**70, -5]]),
    ("bytes[]", [None, [], [b"a", b"", b"\xff"]]),
    ("net.ipaddress[]", [None, [], ["1.2.3.4", "::1"]]),
    ("path[]", [None, [], ["/a", "b"]]),
    ("datetime[]", [None, [], [_dt.datetime(2020, 1, 1, tzinfo=UTC)]]),
    ("boolean[]", [None, [], [True, False]]),
    ("float[]", [None, [], [1.5, -2.0]]),
    ("stringlist", [None, [], ["a", "b"]]),
]


def obs(v):
    import pathlib

    import flow.record.fieldtypes as FT

    if isinstance(v, FT.digest):
        return ("digest", v.md5, v.sha1, v.sha256)
    if isinstance(v, list):
        return [obs(x) for x in v]
    if v is None:
        return None
    if isinstance(v, _dt.datetime):
        return ("datetime", v.isoformat(), str(v.utcoffset()))
    if isinstance(v, pathlib.PurePath):
        return ("path", type(v).__name__, str(v))
    if isinstance(v, float):
        return ("float", repr(float(v)))
    if isinstance(v, bytes):
        return ("bytes", bytes(v).hex())
    return (type(v).__name__, str(v))


def run_case(ti, c1, c2, desc_on, indent):
    """-> None or a description of the violated clause."""
    from flow.record import RecordDescriptor
    from flow.record.adapter.jsonfile import JsonfileReader, JsonfileWriter
    from flow.record.jsonpacker import JsonRecordPacker

    ftype, cands = CAND[ti]
    D = RecordDescriptor("test/json", [(ftype, "f"), ("string", "g")])
    recs = [D(cands[c1], "first"), D(cands[c2], None)]

    with tempdir() as tmp:
        path = os.path.join(tmp, "x.json")
        url = "jsonfile://" + path + "?descriptors=" + ("true" if desc_on else "false") + ("&indent=2" if indent else "")
        from flow.record import RecordReader, RecordWriter

        try:
            w = RecordWriter(url)
            for r in recs:
                w.write(r)
            w.flush()
            w.close()
        except Exception as e:  # noqa: BLE001 - every candidate is a value JSON output supports
            return f"writing raised {type(e).__name__}: {e}"
        text = open(path).read()
        return _judge(text, recs, D, desc_on, indent, lambda: list(RecordReader(path)))


def _judge(text, recs, D, desc_on, indent, read_back):
    # ---- standalone JSON documents
    docs = []
    if indent:
        dec = json.JSONDecoder()
        pos = 0
        while pos < len(text):
            while pos < len(text) and text[pos].isspace():
                pos += 1
            if pos >= len(text):
                break
            try:
                doc, pos = dec.raw_decode(text, pos)
            except ValueError as e:
                return f"output is not a sequence of JSON documents: {e}"
            docs.append(doc)
    else:
        for line in text.splitlines():
            try:
                docs.append(json.loads(line))
            except ValueError as e:
                return f"line is not a standalone JSON document: {line[:60]!r}: {e}"
    rec_docs = [d for d in docs if not (isinstance(d, dict) and d.get("_type") == "recorddescriptor")]
    if len(rec_docs) != 2:
        return f"{len(rec_docs)} record documents for 2 records"
    want_keys = ["f", "g", "_source", "_classification", "_generated", "_version"] + (["_type", "_recorddescriptor"] if desc_on else [])
    for d in rec_docs:
        if not isinstance(d, dict) or sorted(d) != sorted(want_keys):
            return f"record document has keys {sorted(d) if isinstance(d, dict) else d!r}, expected {sorted(want_keys)}"
    if desc_on and len(docs) != 3:
        return f"{len(docs)} documents with descriptors enabled (expected one descriptor and two records)"
    if not desc_on and len(docs) != 2:
        return f"{len(docs)} documents with descriptors disabled"
    if indent:
        return None  # the reader is line based by design; one document per line is promised only without indentation
    # ---- read back
    try:
        got = read_back()
    except Exception as e:  # noqa: BLE001
        return f"reading back raised {type(e).__name__}: {e}"
    if len(got) != 2:
        return f"{len(got)} records read back"
    for i, (g, r, d) in enumerate(zip(got, recs, rec_docs)):
        if desc_on:
            if g._desc.name != "test/json" or g._desc.get_field_tuples() != D.get_field_tuples():
                return f"record {i} read back with descriptor {g._desc.name} {g._desc.get_field_tuples()}"
            for fld in ("f", "g", "_source", "_classification", "_generated", "_version"):
                if obs(getattr(g, fld)) != obs(getattr(r, fld)):
                    return f"record {i} field {fld}: read {obs(getattr(g, fld))}, written {obs(getattr(r, fld))}"
        else:
            if g._desc.name != "json/record":
                return f"plain line read back as {g._desc.name}"
            for fld in ("f", "g"):
                jv = d[fld]
                if isinstance(jv, (list, dict)):
                    continue
                gv = getattr(g, fld)
                same = (gv is None) if jv is None else (type(jv) is bool and bool(gv) == jv and type(gv).__name__ == "boolean") or (type(jv) is not bool and gv == jv and not isinstance(gv, str) == (not isinstance(jv, str)))
                if not same:
                    return f"plain line {i} field {fld}: JSON value {jv!r}, record value {gv!r} ({type(gv).__name__})"
    return None


def run_mixed(ti, tj, a, b, desc_on):
    """Three records of TWO record types whose field 'f' has the same name but different types, in one file: A(a), B(b), A(None).
    -> None or a description of the violated clause."""
    from flow.record import RecordDescriptor, RecordReader, RecordWriter

    (ta, ca), (tb, cb) = CAND[ti], CAND[tj]
    DA = RecordDescriptor("test/json", [(ta, "f"), ("string", "g")])
    # the second type carries the SAME type name when the field types differ (two layouts of one record type, interleaved A B A)
    DB = RecordDescriptor("test/json" if ta != tb else "test/other", [(tb, "f"), ("string", "g")])
    recs = [DA(ca[a], "first"), DB(cb[b], "second"), DA(None, "third")]
    with tempdir() as tmp:
        path = os.path.join(tmp, "x.json")
        url = "jsonfile://" + path + "?descriptors=" + ("true" if desc_on else "false")
        try:
            w = RecordWriter(url)
            for r in recs:
                w.write(r)
            w.flush()
            w.close()
        except Exception as e:  # noqa: BLE001
            return f"writing raised {type(e).__name__}: {e}"
        docs = []
        for line in open(path).read().splitlines():
            try:
                docs.append(json.loads(line))
            except ValueError as e:
                return f"line is not a standalone JSON document: {line[:60]!r}: {e}"
        rec_docs = [d for d in docs if not (isinstance(d, dict) and d.get("_type") == "recorddescriptor")]
        if len(rec_docs) != 3 or len(docs) != (5 if desc_on else 3):
            return f"{len(docs)} documents, {len(rec_docs)} of them records, for 3 records of 2 types (descriptors={desc_on})"
        try:
            got = list(RecordReader(path))
        except Exception as e:  # noqa: BLE001
            return f"reading back raised {type(e).__name__}: {e}"
        if len(got) != 3:
            return f"{len(got)} records read back"
        for i, (g, r, d) in enumerate(zip(got, recs, rec_docs)):
            if desc_on:
                if g._desc.name != r._desc.name or g._desc.get_field_tuples() != r._desc.get_field_tuples():
                    return f"record {i} read back with descriptor {g._desc.name} {g._desc.get_field_tuples()}, written {r._desc.name} {r._desc.get_field_tuples()}"
                for fld in ("f", "g", "_source", "_classification", "_generated", "_version"):
                    if obs(getattr(g, fld)) != obs(getattr(r, fld)):
                        return f"record {i} field {fld}: read {obs(getattr(g, fld))}, written {obs(getattr(r, fld))}"
            else:
                if g._desc.name != "json/record":
                    return f"plain line read back as {g._desc.name}"
                for fld in ("f", "g"):
                    jv = d[fld]
                    if isinstance(jv, (list, dict)):
                        continue
                    gv = getattr(g, fld)
                    same = (gv is None) if jv is None else (type(jv) is bool and bool(gv) == jv and type(gv).__name__ == "boolean") or (type(jv) is not bool and gv == jv and not isinstance(gv, str) == (not isinstance(jv, str)))
                    if not same:
                        return f"plain line {i} field {fld}: JSON value {jv!r}, record value {gv!r} ({type(gv).__name__})"
    return None


def mixed(ti: int, step: int = 1):
    """path-exhaustive over (second type, candidate of each, descriptors on/off); step > 1: every step-th second type, shifted by ti"""
    from crosshair.tracers import NoTracing

    n = len(CAND[ti][1])
    seconds = [k for k in range(len(CAND)) if (k + ti) % step == 0]
    nt = len(seconds)

    def check(tj: int, c1: int, c2: int, desc_on: bool) -> bool:
        """
        post: _
        """
        if not (0 <= tj < nt and 0 <= c1 < n and 0 <= c2 < 6):
            return True
        j = a = b = 0
        for k in range(nt):
            if tj == k:
                j = seconds[k]
        for k in range(n):
            if c1 == k:
                a = k
        for k in range(6):
            if c2 == k:
                b = k
        d = True if desc_on else False
        with NoTracing():
            if b >= len(CAND[j][1]):
                return True
            return run_mixed(ti, j, a, b, d) is None

    return check


def mapping(ti: int):
    from crosshair.tracers import NoTracing

    n = len(CAND[ti][1])

    def check(c1: int, c2: int, desc_on: bool, indent: bool) -> bool:
        """
        post: _
        """
        if not (0 <= c1 < n and 0 <= c2 < n):
            return True
        a = b = 0
        for j in range(n):
            if c1 == j:
                a = j
            if c2 == j:
                b = j
        d = True if desc_on else False
        i = True if indent else False
        with NoTracing():
            return run_case(ti, a, b, d, i) is None

    return check


def obligations(tier, seed):
    to = 60 if tier == "quick" else 240
    obs_ = [ob(f"mapping/{t}", "xh", "mapping", {"ti": i}, timeout=to, group="mapping", bounds=f"{len(c)}^2 candidate pairs x descriptors x indent") for i, (t, c) in enumerate(CAND)]
    step = 4 if tier == "quick" else 1
    obs_ += [ob(f"mixed/{t}", "xh", "mixed", {"ti": i, "step": step}, timeout=to * 2, group="mixed", bounds=f"{len(c)} candidates x {'every 4th of the' if step > 1 else 'all'} 25 second types x their candidates x descriptors on/off: two record types with a same-named field in one file") for i, (t, c) in enumerate(CAND)]
    return obs_


# ------------------------------------------------------------------------------------------------ replay (files)
def replay(res):
    from flow.record import RecordDescriptor, RecordReader, RecordWriter

    ti = res["args"]["ti"]
    if "/mixed/" in res["id"]:
        v = cex_args(res, ["tj", "c1", "c2", "desc_on"])
        tries = []
        step = res["args"].get("step", 1)
        seconds = [k for k in range(len(CAND)) if (k + ti) % step == 0]
        if all(k in v for k in ("tj", "c1", "c2", "desc_on")) and 0 <= v["tj"] < len(seconds) and 0 <= v["c1"] < len(CAND[ti][1]) and 0 <= v["c2"] < len(CAND[seconds[v["tj"]]][1]):
            tries.append((seconds[v["tj"]], v["c1"], v["c2"], bool(v["desc_on"])))
        tries += [(j, a, b, d) for j in range(len(CAND)) for a in range(len(CAND[ti][1])) for b in range(len(CAND[j][1])) for d in (False, True)]
        for j, a, b, d in tries:
            p = run_mixed(ti, j, a, b, d)
            if p:
                return {"reproduced": True, "key": f"C14/mixed/{CAND[ti][0]}+{CAND[j][0]}", "what": f"records of two types in one file, field f: {CAND[ti][0]}={CAND[ti][1][a]!r} then {CAND[j][0]}={CAND[j][1][b]!r} (descriptors={d}): {p}"[:600],
                        "input": {"types": [CAND[ti][0], CAND[j][0]], "c1": a, "c2": b, "descriptors": d}}
        return {"reproduced": False, "what": "mixed files round-trip"}
    ftype, cands = CAND[ti]
    v = cex_args(res, ["c1", "c2", "desc_on", "indent"])
    combos = []
    if all(k in v for k in ("c1", "c2", "desc_on", "indent")) and 0 <= v["c1"] < len(cands) and 0 <= v["c2"] < len(cands):
        combos.append((v["c1"], v["c2"], bool(v["desc_on"]), bool(v["indent"])))
    combos += [(a, b, d, i) for a in range(len(cands)) for b in range(len(cands)) for d in (True, False) for i in (False, True)]
    for a, b, d, i in combos:
        p = run_case(ti, a, b, d, i)
        if not p:
            continue
        detail = p
        key = "C14/bytes/none" if ftype == "bytes" and None in (cands[a], cands[b]) and "TypeError" in detail else ("C14/bytes-list" if ftype == "bytes[]" and "TypeError" in detail else f"C14/{ftype}")
        return {"reproduced": True, "key": key, "what": f"{ftype} values {cands[a]!r}, {cands[b]!r} (descriptors={d}, indent={i}): {detail}"[:600], "input": {"type": ftype, "c1": a, "c2": b, "descriptors": d, "indent": i}}
    return {"reproduced": False, "what": "candidate table round-trips"}
