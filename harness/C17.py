"""C17 - writers lose nothing: close / flush / exit histories, splitting by count, time-templated archiving.

O1 SplitWriter: inductive step of write() (written, count symbolic), bounded runs from __init__ (N, count symbolic), part naming
   (SMT over the suffix expression taken from the AST of _next_path; concrete sweep of the assembled paths).
O2 call histories K <= 4 over {write, flush, close, __exit__} for every writer adapter, on stand-in sinks / collaborators.
O3 PathTemplateWriter over a dictionary file system: bucket sequence and pre-existing files symbolic.
"""
import ast
import datetime as _dt
import io
import itertools
import os
import time
import types

from crosshair.tracers import NoTracing

from harness.common import cex_args, mk, tempdir

PROPERTY = "C17"
FUNCTIONS = [
    "flow.record.adapter.split:SplitWriter.write",
    "flow.record.adapter.split:SplitWriter._next_path",
    "flow.record.adapter.split:SplitWriter.__init__",
    "flow.record.adapter:AbstractWriter.__exit__",
    "flow.record.adapter.stream:StreamWriter.flush",
    "flow.record.adapter.stream:StreamWriter.close",
    "flow.record.stream:RecordStreamWriter.flush",
    "flow.record.stream:RecordStreamWriter.close",
    "flow.record.stream:RecordStreamWriter.write",
    "flow.record.adapter.jsonfile:JsonfileWriter.close",
    "flow.record.adapter.avro:AvroWriter.write",
    "flow.record.adapter.avro:AvroWriter.flush",
    "flow.record.adapter.avro:AvroWriter.close",
    "flow.record.adapter.sqlite:SqliteWriter.write",
    "flow.record.adapter.sqlite:SqliteWriter.close",
    "flow.record.adapter.csvfile:CsvfileWriter.close",
    "flow.record.adapter.line:LineWriter.close",
    "flow.record.adapter.text:TextWriter.close",
    "flow.record.stream:PathTemplateWriter.rotate_existing_file",
    "flow.record.stream:PathTemplateWriter.record_stream_for_path",
    "flow.record.stream:PathTemplateWriter.write",
]
BOUNDS = {
    "split step": "written, count: all ints with count >= 1 and 0 <= written < count; file_count in {0, 9, 10, 99, 100, 12345}",
    "split runs": "N <= 6 writes (12 thorough), count in [1, N+1] symbolic, then close; suffix length 1 and 2",
    "split naming": "suffix expression == zero-padded decimal for ALL file_count >= 0 (unbounded, string theory), suffix length 1..4; assembled paths: file_count 0..1200 x 5 path shapes (concrete)",
    "histories": "every sequence of K <= 4 (5 thorough) calls from {write, flush, close, __exit__} in which nothing follows the first close/exit except close/exit, per adapter; Avro: every spontaneous-flush pattern",
    "rotation": "3 records (4 thorough) over 3 hour buckets in every order, every subset of pre-existing target files, same-second and later clock",
}
STUBS = [
    "sub-writers of SplitWriter / PathTemplateWriter: collecting fakes keyed by path (opening a path truncates it)",
    "file objects: recording sinks (bytes / text chunks, flush and close counters; writing to a closed sink raises)",
    "fastavro.write.Writer: header at construction, write() buffers, flush() writes the block, may flush spontaneously (one symbolic bit per write)",
    "sqlite3.Connection: records BEGIN/COMMIT/INSERT/DDL, maintains in_transaction and committed / pending rows",
    "os.path.exists / os.rename / os.makedirs and datetime.now for PathTemplateWriter: dictionary file system whose rename refuses an existing destination",
]
OUTSIDE = ["durability of real files and real fastavro / sqlite3 beyond the fakes' contracts (replays use the real ones)", "writes after close (misuse)", "compression layers"]
ASSUMPTIONS = ["a writer's observable effect is the sequence of calls it makes on its sink / collaborator"]
K3 = "C17/stream/empty-close"

ob = mk("harness.C17", PROPERTY)
UTC = _dt.timezone.utc


# ================================================================================================ O1 split
class Sub:
    """collecting sub-writer; opening a path that already holds a part truncates it (as a real file would)"""

    def __init__(self, store, path):
        self.path = path
        self.store = store
        self.recs = []
        self.flushed = 0
        self.closed = False
        store.setdefault("opened", []).append(path)
        store.setdefault("parts", {})[path] = self
        store.setdefault("order", []).append(self)
        if any(not s.closed for s in store["order"][:-1]):
            store["overlap"] = True

    def write(self, r):
        if self.closed:
            raise ValueError("write to closed part")
        self.recs.append(r)

    def flush(self):
        self.flushed = len(self.recs)

    def close(self):
        self.closed = True


def split_step(file_count: int = 0):
    import flow.record.adapter.split as SP

    def check(written: int, count: int) -> bool:
        """
        post: _
        """
        if not (count >= 1 and 0 <= written < count):
            return True
        store = {}
        w = object.__new__(SP.SplitWriter)
        w.path = "out.records"
        w.kwargs = {}
        w.written = written
        w.count = count
        w.suffix_length = 2
        w.file_count = file_count
        w.is_stdout = False
        cur = Sub(store, "cur")
        w.writer = cur
        saved = SP.RecordWriter
        SP.RecordWriter = lambda path, **kw: Sub(store, path)
        try:
            w.write("R")
        finally:
            SP.RecordWriter = saved
        rotated = written + 1 >= count
        ok = cur.recs == ["R"] and 0 <= w.written < count
        if rotated:
            ok = ok and cur.closed and cur.flushed == 1 and w.writer is not cur and w.writer.recs == [] and w.written == 0 and w.file_count == file_count + 1 and not store.get("overlap")
        else:
            ok = ok and (not cur.closed) and w.writer is cur and w.written == written + 1 and w.file_count == file_count
        return ok

    return check


def split_run(nmax: int = 6, suffix_length: int = 2, uri: str = "out.records"):
    import flow.record.adapter.split as SP

    def check(n: int, count: int, flush_first: bool) -> bool:
        """
        post: _
        """
        if not (0 <= n <= nmax and 1 <= count <= nmax + 1):
            return True
        store = {}
        saved = SP.RecordWriter
        SP.RecordWriter = lambda path, **kw: Sub(store, path)
        try:
            w = SP.SplitWriter(uri, **{"count": count, "suffix-length": suffix_length})
            i = 0
            while i < n:
                w.write(i)
                i += 1
            if flush_first:
                w.flush()
            w.close()
        finally:
            SP.RecordWriter = saved
        parts = store["order"]
        # no part file is opened twice, every part is closed (and was flushed completely), none exceeds the limit
        if len(set(store["opened"])) != len(store["opened"]) or store.get("overlap"):
            return False
        out = []
        for p in parts:
            if not p.closed or len(p.recs) > count or (p.recs and p.flushed != len(p.recs) and p is not parts[-1]):
                return False
            out += p.recs
        if parts[-1].recs and not flush_first and False:
            return False
        # concatenation in order of opening == what was written
        if len(out) != n:
            return False
        j = 0
        for x in out:
            if x != j:
                return False
            j += 1
        # every part but the last is full
        for p in parts[:-1]:
            if len(p.recs) != count:
                return False
        return True

    return check


def _pad_ref(d, L):
    import z3

    # zero-padded decimal: the reference meaning of a part suffix
    alts = d
    for k in range(1, L):
        alts = z3.If(z3.Length(d) == k, z3.Concat(z3.StringVal("0" * (L - k)), d), alts)
    return alts


class _Untranslatable(Exception):
    pass


def _suffix_term(node, D, L):
    """z3 term of the suffix expression; D = decimal rendering of self.file_count, L = concrete self.suffix_length"""
    import z3

    def is_attr(n, name):
        return isinstance(n, ast.Attribute) and isinstance(n.value, ast.Name) and n.value.id == "self" and n.attr == name

    def intval(n):
        if isinstance(n, ast.Constant) and isinstance(n.value, int):
            return n.value
        if is_attr(n, "suffix_length"):
            return L
        if isinstance(n, ast.UnaryOp) and isinstance(n.op, ast.USub):
            return -intval(n.operand)
        raise _Untranslatable(ast.dump(n)[:80])

    def ev(n):
        if isinstance(n, ast.Call) and isinstance(n.func, ast.Name) and n.func.id == "str" and len(n.args) == 1 and is_attr(n.args[0], "file_count"):
            return D
        if isinstance(n, ast.Constant) and isinstance(n.value, str):
            return z3.StringVal(n.value)
        if isinstance(n, ast.Call) and isinstance(n.func, ast.Attribute) and n.func.attr in ("rjust", "zfill"):
            s = ev(n.func.value)
            width = intval(n.args[0])
            fill = "0"
            if n.func.attr == "rjust":
                if len(n.args) != 2 or not (isinstance(n.args[1], ast.Constant) and isinstance(n.args[1].value, str) and len(n.args[1].value) == 1):
                    raise _Untranslatable("rjust fill")
                fill = n.args[1].value
            out = s
            for k in range(0, width):
                out = z3.If(z3.Length(s) == k, z3.Concat(z3.StringVal(fill * (width - k)), s), out)
            return out
        if isinstance(n, ast.Subscript) and isinstance(n.slice, ast.Slice) and n.slice.step is None:
            s = ev(n.value)
            lo, hi = n.slice.lower, n.slice.upper
            if lo is not None and hi is None and intval(lo) < 0:
                k = -intval(lo)
                return z3.If(z3.Length(s) <= k, s, z3.SubString(s, z3.Length(s) - k, k))
            if lo is None and hi is not None and intval(hi) >= 0:
                return z3.SubString(s, 0, intval(hi))
            raise _Untranslatable("slice")
        if isinstance(n, ast.JoinedStr):
            parts = []
            for v in n.values:
                if isinstance(v, ast.Constant):
                    parts.append(z3.StringVal(v.value))
                elif isinstance(v, ast.FormattedValue) and is_attr(v.value, "file_count") and v.conversion == -1:
                    if v.format_spec is None:
                        parts.append(D)
                        continue
                    spec = ""
                    for sv in v.format_spec.values:
                        if isinstance(sv, ast.Constant):
                            spec += sv.value
                        elif isinstance(sv, ast.FormattedValue) and is_attr(sv.value, "suffix_length"):
                            spec += str(L)
                        else:
                            raise _Untranslatable("format spec")
                    if not (spec.startswith("0") and spec.rstrip("d").isdigit()):
                        raise _Untranslatable("format spec " + spec)
                    width = int(spec.rstrip("d"))
                    out = D
                    for k in range(0, width):
                        out = z3.If(z3.Length(D) == k, z3.Concat(z3.StringVal("0" * (width - k)), D), out)
                    parts.append(out)
                else:
                    raise _Untranslatable("f-string part")
            return z3.Concat(*parts) if len(parts) > 1 else parts[0]
        raise _Untranslatable(ast.dump(n)[:80])

    return ev(node)


def split_suffix_smt(cross: bool = False):
    """For ALL file_count >= 0 (rendered as a canonical decimal string D): the suffix computed by _next_path equals D left-padded with
    zeros to suffix_length - hence distinct counts give distinct part names and the numeric order is kept."""
    import z3

    from vf.smt.kse import cross_check_cvc5, get_function_ast
    from vf.smt.regex import to_z3 as _unused  # noqa: F401  (regex helpers live there; keep import errors visible)

    t0 = time.time()
    queries = 0
    solver_s = 0.0
    try:
        fn, mod, _ = get_function_ast("flow.record.adapter.split:SplitWriter._next_path")
        assigns = [n for n in ast.walk(fn) if isinstance(n, ast.Assign) and len(n.targets) == 1 and isinstance(n.targets[0], ast.Name) and n.targets[0].id == "suffix"]
        if len(assigns) != 1:
            raise _Untranslatable(f"{len(assigns)} assignments to 'suffix' in _next_path")
        D = z3.String("D")
        digit = z3.Range("0", "9")
        canon = z3.Union(z3.Re("0"), z3.Concat(z3.Range("1", "9"), z3.Star(digit)))
        validated = 0
        for L in (1, 2, 3, 4):
            term = _suffix_term(assigns[0].value, D, L)
            s = z3.Solver()
            s.set("timeout", 60000)
            s.add(z3.InRe(D, canon))
            # vacuity: the assumptions alone are satisfiable
            t = time.time()
            r0 = s.check()
            s.add(term != _pad_ref(D, L))
            r = s.check()
            solver_s += time.time() - t
            queries += 2
            if str(r0) != "sat":
                return {"verdict": "unknown", "detail": f"assumptions {r0}", "queries": queries, "solver_s": solver_s}
            if str(r) == "sat":
                d = s.model().eval(D, model_completion=True).as_string()
                return {"verdict": "sat", "model": {"file_count": int(d), "suffix_length": L}, "detail": f"suffix of part {d} with suffix-length {L} is not the zero-padded decimal", "queries": queries, "solver_s": solver_s}
            if str(r) != "unsat":
                return {"verdict": "unknown", "detail": f"L={L}: {r}", "queries": queries, "solver_s": solver_s}
            if cross:
                cc = cross_check_cvc5(s, "unsat")
                if str(cc).startswith("disagree"):
                    return {"verdict": "unknown", "detail": f"cvc5 disagrees for L={L}: {cc}", "queries": queries, "solver_s": solver_s}
            # translator validation: the encoding evaluated on concrete counts equals the real suffix
            for n in (0, 7, 10, 99, 100, 12345):
                real = _real_suffix(n, L)
                enc = z3.simplify(z3.substitute(term, (D, z3.StringVal(str(n)))))
                if not z3.is_string_value(enc) or enc.as_string() != real:
                    return {"verdict": "error", "detail": f"translation mismatch for file_count={n}, L={L}: encoding {enc}, real {real!r}", "queries": queries, "solver_s": solver_s}
                validated += 1
        return {"verdict": "unsat", "detail": "suffix == zero-padded decimal for every file_count, suffix-length 1..4", "queries": queries, "solver_s": solver_s, "validated": validated, "functions": ["flow.record.adapter.split:SplitWriter._next_path"]}
    except _Untranslatable as e:
        return {"verdict": "unknown", "detail": f"suffix expression not translatable: {e}", "queries": queries, "solver_s": solver_s}
    finally:
        _ = t0


def _real_suffix(n, L):
    import flow.record.adapter.split as SP

    w = object.__new__(SP.SplitWriter)
    w.path = "dir/out.records"
    w.is_stdout = False
    w.file_count = n
    w.suffix_length = L
    p = w._next_path()
    # dir/out.<suffix>.records
    return p[len("dir/out.") : -len(".records")]


def split_paths():
    """assembled part paths (concrete sweep): distinct, keep directory / scheme / extension, carry the zero-padded index"""
    import flow.record.adapter.split as SP

    bad = []
    n = 0
    shapes = [("out.records", "", "out", ".records"), ("dir.v1/out.records.gz", "", "dir.v1/out.records", ".gz"), ("jsonfile://x/out.json", "jsonfile://", "x/out", ".json"), ("/abs/noext", "", "/abs/noext", ""), ("csvfile://a.b/c.d.csv", "csvfile://", "a.b/c.d", ".csv")]
    for L in (1, 2, 3):
        for path, scheme, stem, ext in shapes:
            w = object.__new__(SP.SplitWriter)
            w.path = path
            w.is_stdout = False
            w.file_count = 0
            w.suffix_length = L
            seen = {}
            for i in range(1201):
                p = w._next_path()
                n += 1
                want = f"{scheme}{stem}.{str(i).rjust(L, '0')}{ext}"
                if p != want and len(bad) < 5:
                    bad.append(f"part {i} of {path!r} (suffix-length {L}) is {p!r}, expected {want!r}")
                if p in seen and len(bad) < 5:
                    bad.append(f"part {i} of {path!r} (suffix-length {L}) reuses the name of part {seen[p]}: {p!r}")
                seen[p] = i
    return {"ok": not bad, "detail": f"{n} part names; " + "; ".join(bad[:3]), "cex": {"kw": {"bad": bad}}}


# ================================================================================================ O2 histories
class BinSink:
    def __init__(self):
        self.chunks = []
        self.closed = 0
        self.flushes = 0

    def write(self, b):
        if self.closed:
            raise ValueError("I/O operation on closed file")
        self.chunks.append(bytes(b))
        return len(b)

    def flush(self):
        if self.closed:
            raise ValueError("I/O operation on closed file")
        self.flushes += 1

    def close(self):
        self.closed += 1

    def data(self):
        return b"".join(self.chunks)


class TextSink(BinSink):
    def write(self, s):
        if self.closed:
            raise ValueError("I/O operation on closed file")
        self.chunks.append(s)
        return len(s)

    def data(self):
        return "".join(self.chunks)


class FakeAvroWriter:
    """contract of fastavro.write.Writer: header at construction, write() buffers, flush() writes the buffered block; the
    writer may also flush on its own whenever its buffer is 'full' (one symbolic bit per write)"""

    spont = []

    def __init__(self, fo, schema, codec=None, **kw):
        if fo.closed or getattr(fo, "header", False):
            raise ValueError("second container header / closed file")
        self.fo = fo
        self.buf = []
        fo.header = True
        fo.blocks = []

    def write(self, rec):
        if self.fo.closed:
            raise ValueError("write on closed file")
        self.buf.append(rec)
        if FakeAvroWriter.spont and FakeAvroWriter.spont.pop(0):
            self.flush()

    def flush(self):
        if self.fo.closed:
            raise ValueError("flush on closed file")
        if self.buf:
            self.fo.blocks.append(list(self.buf))
            self.buf = []


class FakeCon:
    """sqlite3.Connection with isolation_level=None: explicit BEGIN / COMMIT, rows become visible at COMMIT"""

    def __init__(self):
        self.in_transaction = False
        self.log = []
        self.pending = []
        self.committed = []
        self.closed = 0
        self.tables = {}

    def execute(self, sql, values=None):
        if self.closed:
            raise ValueError("Cannot operate on a closed database.")
        k = sql.split()[0].upper()
        if k == "BEGIN":
            if self.in_transaction:
                raise ValueError("cannot start a transaction within a transaction")
            self.in_transaction = True
        elif k == "COMMIT":
            if not self.in_transaction:
                raise ValueError("cannot commit - no transaction is active")
            self.in_transaction = False
            self.committed += self.pending
            self.pending = []
        elif k == "INSERT":
            if self.in_transaction:
                self.pending.append(values)
            else:
                self.committed.append(values)
        self.log.append(k)

        class Cur:
            def fetchall(s):
                return []

        return Cur()

    def commit(self):
        if self.in_transaction:
            self.execute("COMMIT")

    def close(self):
        # closing with an open transaction rolls it back
        self.pending = []
        self.in_transaction = False
        self.closed += 1


ADAPTERS = ["stream", "json", "avro", "sqlite", "csv", "line", "text", "split"]


def _ops_ok(ops):
    """nothing but close/exit after the first close/exit; at least one close/exit"""
    closed = False
    for o in ops:
        if closed and o < 2:
            return False
        if o >= 2:
            closed = True
    return closed


def history(adapter: str, k: int = 4):
    import flow.record.adapter.avro as AV
    import flow.record.adapter.split as SP
    from flow.record import RecordDescriptor
    from flow.record.adapter.csvfile import CsvfileWriter
    from flow.record.adapter.jsonfile import JsonfileReader, JsonfileWriter
    from flow.record.adapter.line import LineWriter
    from flow.record.adapter.sqlite import SqliteWriter
    from flow.record.adapter.stream import StreamWriter
    from flow.record.adapter.text import TextWriter
    from flow.record.jsonpacker import JsonRecordPacker
    from flow.record.stream import RecordStreamReader, RecordStreamWriter

    D = RecordDescriptor("t/w", [("string", "s"), ("varint", "n")])
    RECS = [D(f"r{i}", i, _generated=_dt.datetime(2020, 1, 1, tzinfo=UTC)) for i in range(k)]

    def check(o0: int, o1: int, o2: int, o3: int, o4: int, s0: bool, s1: bool, s2: bool, s3: bool) -> bool:
        """
        post: _
        """
        ops = [o0, o1, o2, o3, o4][:k]
        for o in ops:
            if not (0 <= o <= 3):
                return True
        if not _ops_ok(ops):
            return True
        nwrites = 0
        for o in ops:
            if o == 0:
                nwrites += 1
        if nwrites == 0:
            return True  # the empty output is the subject of history_empty
        store = {}
        saved = (AV.fastavro, SP.RecordWriter)
        sink = None
        if adapter == "stream":
            sink = BinSink()
            w = object.__new__(StreamWriter)
            w.fp = sink
            w.stream = RecordStreamWriter(sink)
        elif adapter == "json":
            sink = TextSink()
            w = object.__new__(JsonfileWriter)
            w.descriptors = True
            w.fp = sink
            w.packer = JsonRecordPacker(indent=None, pack_descriptors=True)
            w.packer.on_descriptor.add_handler(w.packer_on_new_descriptor)
        elif adapter == "avro":
            sink = BinSink()
            FakeAvroWriter.spont = [s0, s1, s2, s3]
            AV.fastavro = types.SimpleNamespace(write=types.SimpleNamespace(Writer=FakeAvroWriter), parse_schema=lambda s: s)
            w = object.__new__(AV.AvroWriter)
            w.fp = sink
            w.desc = w.schema = w.parsed_schema = w.writer = None
            w.codec = "null"
        elif adapter == "sqlite":
            sink = FakeCon()
            w = object.__new__(SqliteWriter)
            w.descriptors_seen = set()
            w.con = sink
            w.count = 0
            w.batch_size = 2 if s0 else 3
            w.tx_cycle()
        elif adapter == "csv":
            sink = TextSink()
            w = object.__new__(CsvfileWriter)
            w.fp = sink
            w.lineterminator = "\r\n"
            w.desc = w.writer = w.fields = w.exclude = None
        elif adapter == "line":
            sink = BinSink()
            w = object.__new__(LineWriter)
            w.fp = sink
            w.count = 0
            w.fields = w.exclude = None
            w.verbose = False
        elif adapter == "text":
            sink = BinSink()
            w = object.__new__(TextWriter)
            w.fp = sink
            w.auto_flush = bool(s0)
            w.format_spec = None
        elif adapter == "split":
            SP.RecordWriter = lambda path, **kw: Sub(store, path)
            w = SP.SplitWriter("out.records", count=2)
        else:
            raise AssertionError(adapter)
        written = []
        raised = None
        try:
            i = 0
            for o in ops:
                if o == 0:
                    w.write(RECS[i])
                    written.append(RECS[i])
                    i += 1
                elif o == 1:
                    w.flush()
                elif o == 2:
                    w.close()
                else:
                    w.__exit__(None, None, None)
        except Exception as e:  # noqa: BLE001
            raised = e
        finally:
            AV.fastavro, SP.RecordWriter = saved
        if raised is not None:
            return False
        with NoTracing():
            # everything below is concrete: what reached the sink is exactly what was written, and the sink is closed once
            # (a sink may be closed more than once - StreamWriter closes the file through the stream writer and directly - which is
            #  harmless for a real file; writing or flushing after the close is not: the sinks raise)
            if adapter == "stream":
                if sink.closed < 1:
                    return False
                got = list(RecordStreamReader(io.BytesIO(sink.data())))
                return [(r.s, r.n) for r in got] == [(r.s, r.n) for r in written]
            if adapter == "json":
                if sink.closed < 1:
                    return False
                rd = object.__new__(JsonfileReader)
                rd.selector = None
                rd.fp = io.StringIO(sink.data())
                rd.packer = JsonRecordPacker()
                return [(r.s, r.n) for r in rd] == [(r.s, r.n) for r in written]
            if adapter == "avro":
                on_disk = [r["s"] for blk in getattr(sink, "blocks", []) for r in blk]
                return sink.closed >= 1 and getattr(sink, "header", False) and on_disk == [r.s for r in written]
            if adapter == "sqlite":
                return sink.closed >= 1 and not sink.pending and len(sink.committed) == len(written) and sink.log.count("INSERT") == len(written)
            if adapter == "csv":
                lines = sink.data().split("\r\n")
                return sink.closed >= 1 and [ln.split(",")[0] for ln in lines[1:] if ln] == [r.s for r in written]
            if adapter == "line":
                text = sink.data().decode()
                return sink.closed >= 1 and text.count("--[ RECORD ") == len(written) and all(f"s = {r.s}\n" in text for r in written)
            if adapter == "text":
                text = sink.data().decode()
                return sink.closed >= 1 and [ln for ln in text.split("\n") if ln] == [repr(r) for r in written]
            if adapter == "split":
                parts = store.get("order", [])
                out = [r for p in parts for r in p.recs]
                return all(p.closed for p in parts) and all(p.flushed == len(p.recs) for p in parts[:-1]) and [r.n for r in out] == [r.n for r in written] and len(set(store["opened"])) == len(store["opened"])
        return False

    return check


def history_empty(adapter: str):
    """a writer that is opened and closed without records leaves a valid empty output (stream, JSON, Avro, SQLite)"""
    import flow.record.adapter.avro as AV
    from flow.record.adapter.jsonfile import JsonfileWriter
    from flow.record.adapter.sqlite import SqliteWriter
    from flow.record.adapter.stream import StreamWriter
    from flow.record.jsonpacker import JsonRecordPacker
    from flow.record.stream import RecordStreamReader, RecordStreamWriter

    def check(o0: int, o1: int, o2: int) -> bool:
        """
        post: _
        """
        ops = [o0, o1, o2]
        for o in ops:
            if not (1 <= o <= 3):
                return True
        if not _ops_ok(ops):
            return True
        saved = AV.fastavro
        if adapter == "stream":
            sink = BinSink()
            w = object.__new__(StreamWriter)
            w.fp = sink
            w.stream = RecordStreamWriter(sink)
        elif adapter == "json":
            sink = TextSink()
            w = object.__new__(JsonfileWriter)
            w.descriptors = True
            w.fp = sink
            w.packer = JsonRecordPacker(indent=None, pack_descriptors=True)
        elif adapter == "avro":
            sink = BinSink()
            AV.fastavro = types.SimpleNamespace(write=types.SimpleNamespace(Writer=FakeAvroWriter), parse_schema=lambda s: s)
            w = object.__new__(AV.AvroWriter)
            w.fp = sink
            w.desc = w.schema = w.parsed_schema = w.writer = None
            w.codec = "null"
        else:
            sink = FakeCon()
            w = object.__new__(SqliteWriter)
            w.descriptors_seen = set()
            w.con = sink
            w.count = 0
            w.batch_size = 2
            w.tx_cycle()
        try:
            for o in ops:
                if o == 1:
                    w.flush()
                elif o == 2:
                    w.close()
                else:
                    w.__exit__(None, None, None)
        except Exception:  # noqa: BLE001
            return False
        finally:
            AV.fastavro = saved
        with NoTracing():
            if sink.closed < 1:
                return False
            if adapter == "stream":
                try:
                    return list(RecordStreamReader(io.BytesIO(sink.data()))) == []
                except Exception:  # noqa: BLE001
                    return False
            if adapter == "json":
                return sink.data() == ""
            if adapter == "avro":
                return getattr(sink, "header", False) and getattr(sink, "blocks", None) == []
            return not sink.pending and not sink.committed
        return False

    return check


# ================================================================================================ O3 archiving
BUCKETS = [_dt.datetime(2020, 1, 1, 0, tzinfo=UTC), _dt.datetime(2020, 1, 1, 1, tzinfo=UTC), _dt.datetime(2020, 1, 2, 0, tzinfo=UTC)]


class FS:
    """dictionary file system: path -> list of records ('old:<path>' marks pre-existing content)"""

    def __init__(self):
        self.files = {}
        self.dirs = set()
        self.renames = []
        self.bad = None


class FakeFileWriter:
    def __init__(self, fs, path):
        self.fs = fs
        self.path = path
        self.closed = False
        if path in fs.files:
            fs.bad = f"{path} opened for writing while it exists (its content is truncated)"
        fs.files[path] = []  # opening for writing truncates
        self.fp = types.SimpleNamespace(flush=lambda: None)

    def write(self, r):
        if self.closed:
            raise ValueError("write to closed file")
        self.fs.files[self.path].append(r)

    def flush(self):
        pass

    def close(self):
        self.closed = True


def rotation(k: int = 3, clock: str = "same", by_field: bool = False):
    """by_field: the template also names a field of the record ({record.host}); consecutive records may share the timestamp and differ
    in that field (pre-existing files are then left out to keep the obligation small)"""
    import flow.record.stream as S
    from flow.record import RecordDescriptor

    D = RecordDescriptor("t/arch", [("varint", "n"), ("string", "host")])
    tmpl = "/arch/{record.host}-{ts:%Y%m%dT%H}.records.gz" if by_field else "/arch/{ts:%Y%m%dT%H}.records.gz"

    class _H:
        host = "h0"

    paths = [tmpl.format(ts=b, record=_H) for b in BUCKETS]

    def check(c0: int, c1: int, c2: int, c3: int, pre0: bool, pre1: bool, pre2: bool) -> bool:
        """
        post: _
        """
        cs = [c0, c1, c2, c3][:k]
        for c in cs:
            if not (0 <= c <= 2):
                return True
        if by_field:
            # the pre-existing bits select the host of each record instead
            hosts = ["h1" if b else "h0" for b in (pre0, pre1, pre2)] + ["h0"]
            pre0 = pre1 = pre2 = False
        fs = FS()
        for p, pre in zip(paths, (pre0, pre1, pre2)):
            if pre:
                fs.files[p] = ["old:" + p]
        fs.dirs.add("/arch")
        real_os = S.os
        real_dt = S.datetime
        ticks = [0]

        def rename(src, dst):
            if src not in fs.files or dst in fs.files:
                fs.bad = f"rename {src} -> {dst}: destination exists (would be overwritten)" if dst in fs.files else f"rename of missing {src}"
                return
            fs.files[dst] = fs.files.pop(src)
            fs.renames.append((src, dst))

        class FakeDT:
            @staticmethod
            def now(tz=None):
                if clock != "same":
                    ticks[0] += 1
                return _dt.datetime(2024, 5, 5, 5, 5, 5, tzinfo=UTC) + _dt.timedelta(seconds=ticks[0])

        fake_path = types.SimpleNamespace(exists=lambda p: p in fs.files or p in fs.dirs, realpath=lambda p: p, dirname=real_os.path.dirname, basename=real_os.path.basename, join=real_os.path.join, splitext=real_os.path.splitext)
        S.os = types.SimpleNamespace(path=fake_path, rename=rename, makedirs=lambda d: fs.dirs.add(d))
        S.datetime = types.SimpleNamespace(datetime=FakeDT, timezone=_dt.timezone)
        saved_rw = S.RecordWriter
        S.RecordWriter = lambda path: FakeFileWriter(fs, path)
        recs = []
        try:
            w = S.PathTemplateWriter(path_template=tmpl)
            i = 0
            for c in cs:
                target = None
                gen = None
                for j in range(3):
                    if c == j:
                        target, gen = paths[j], BUCKETS[j]
                r = D(i, hosts[i] if by_field else "h0", _generated=gen)
                if by_field:
                    target = tmpl.format(ts=gen, record=r)
                recs.append((target, r))
                w.write(r)
                i += 1
            w.close()
        except Exception:  # noqa: BLE001
            return False
        finally:
            S.os = real_os
            S.datetime = real_dt
            S.RecordWriter = saved_rw
        with NoTracing():
            if fs.bad:
                return False
            all_lists = list(fs.files.values())
            for p, pre in zip(paths, (pre0, pre1, pre2)):
                if pre and ["old:" + p] not in all_lists:
                    return False
            for path, r in recs:
                hits = [p for p, lst in fs.files.items() if any(x is r for x in lst)]
                if len(hits) != 1:
                    return False
                h = hits[0]
                stem = path[: -len(".records.gz")]
                if not (h == path or (h.startswith(stem + ".") and h.endswith(".records.gz"))):
                    return False
            return True
        return False

    return check


# ================================================================================================ obligations
def obligations(tier, seed):
    to = 60 if tier == "quick" else 300
    obs = []
    for fc in (0, 9, 10, 99, 100, 12345):
        obs.append(ob(f"O1-split-step/fc{fc}", "xh", "split_step", {"file_count": fc}, timeout=to, group="O1-split-step", bounds="written, count: all ints, count >= 1, 0 <= written < count"))
    nmax = 6 if tier == "quick" else 12
    for L, uri in ((1, "out.records"), (2, "out.records.gz"), (1, "jsonfile://d/out.json")):
        obs.append(ob(f"O1-split-run/L{L}-{uri.split('/')[-1]}", "xh", "split_run", {"nmax": nmax if L == 1 or tier != "quick" else 6, "suffix_length": L, "uri": uri}, timeout=to * 2, group="O1-split-run", bounds=f"n <= {nmax}, count in [1, n+1], flush before close or not"))
    if tier != "quick":
        obs.append(ob("O1-split-run/L1-wrap", "xh", "split_run", {"nmax": 12, "suffix_length": 1, "uri": "x/out.records"}, timeout=to * 2, group="O1-split-run"))
    obs.append(ob("O1-split-suffix", "smt", "split_suffix_smt", {"cross": tier != "quick"}, timeout=300, group="O1-split-naming", bounds="all file_count >= 0 (canonical decimal strings, unbounded), suffix-length 1..4"))
    obs.append(ob("S1-split-paths", "side", "split_paths", {}, group="O1-split-naming"))
    k = 4 if tier == "quick" else 5
    for a in ADAPTERS:
        obs.append(ob(f"O2-history/{a}", "xh", "history", {"adapter": a, "k": k}, timeout=to * 3, group="O2-history", bounds=f"all call sequences of length {k} over write/flush/close/exit ending closed; Avro: all spontaneous flush patterns"))
    for a in ("stream", "json", "avro", "sqlite"):
        obs.append(ob(f"O2-empty/{a}", "xh", "history_empty", {"adapter": a}, timeout=to, group="O2-empty", bounds="all sequences of 3 calls over flush/close/exit"))
    for clock in ("same", "ticking"):
        obs.append(ob(f"O3-rotation/{clock}", "xh", "rotation", {"k": 3 if tier == "quick" else 4, "clock": clock}, timeout=to * 4, group="O3-rotation", bounds="bucket of each record in {0,1,2}, pre-existing bit per target path"))
    obs.append(ob("O3-rotation/by-field", "xh", "rotation", {"k": 3, "clock": "tick", "by_field": True}, timeout=to * 4, group="O3-rotation", bounds="template names a record field: bucket of each record in {0,1,2} x field value of each record in {h0, h1}"))
    obs.append(ob("S2-real-histories", "side", "real_histories", {}, timeout=300, group="S2-real"))
    obs.append(ob("S3-real-split", "side", "real_split", {}, timeout=300, group="S3-real-split"))
    return obs


# ================================================================================================ real-file battery and replay
OPN = {0: "write", 1: "flush", 2: "close", 3: "exit"}


def _apply_real(uri, ops, recs):
    from flow.record import RecordWriter

    w = RecordWriter(uri)
    written = []
    i = 0
    for o in ops:
        if o == 0:
            w.write(recs[i])
            written.append(recs[i])
            i += 1
        elif o == 1:
            w.flush()
        elif o == 2:
            w.close()
        else:
            w.__exit__(None, None, None)
    return written


def _read_real(adapter, path):
    import sqlite3

    from flow.record import RecordReader

    if adapter == "sqlite":
        con = sqlite3.connect(path)
        try:
            tabs = [r[0] for r in con.execute("SELECT name FROM sqlite_master WHERE type='table'")]
            return [row[0] for t in tabs for row in con.execute(f'SELECT s FROM "{t}" ORDER BY rowid')]
        finally:
            con.close()
    if adapter in ("csv",):
        return [ln.split(",")[0] for ln in open(path, newline="").read().split("\r\n")[1:] if ln]
    if adapter == "line":
        return [ln.split(" = ")[1] for ln in open(path).read().split("\n") if ln.strip().startswith("s = ")]
    if adapter == "text":
        import re

        return re.findall(r"s='(r\d+)'", open(path).read())
    return [r.s for r in RecordReader(path if adapter == "stream" else {"json": "jsonfile://", "avro": "avro://"}[adapter] + path)]


def _real_uri(adapter, d):
    return {
        "stream": os.path.join(d, "o.records"),
        "json": "jsonfile://" + os.path.join(d, "o.json"),
        "avro": "avro://" + os.path.join(d, "o.avro"),
        "sqlite": "sqlite://" + os.path.join(d, "o.db"),
        "csv": "csvfile://" + os.path.join(d, "o.csv"),
        "line": "line://" + os.path.join(d, "o.txt"),
        "text": "text://" + os.path.join(d, "o.txt"),
    }[adapter]


def _history_real(adapter, ops):
    """apply a history to the real writer on a real file; return a problem description or None"""
    from flow.record import RecordDescriptor

    D = RecordDescriptor("t/w", [("string", "s"), ("varint", "n")])
    recs = [D(f"r{i}", i) for i in range(len(ops))]
    with tempdir() as d:
        uri = _real_uri(adapter, d)
        path = uri.split("://", 1)[-1]
        try:
            written = _apply_real(uri, ops, recs)
        except Exception as e:  # noqa: BLE001
            return f"{adapter} writer, calls {[OPN[o] for o in ops]}: raised {type(e).__name__}: {e}"
        try:
            got = _read_real(adapter, path)
        except Exception as e:  # noqa: BLE001
            return f"{adapter} writer, calls {[OPN[o] for o in ops]}: output unreadable ({type(e).__name__}: {e}); {len(written)} records were written"
        if got != [r.s for r in written]:
            return f"{adapter} writer, calls {[OPN[o] for o in ops]}: read back {got}, written {[r.s for r in written]}"
    return None


def _is_k3(adapter, ops):
    """known finding K3: a stream writer that is closed before anything was written or flushed leaves a 0-byte file"""
    return adapter == "stream" and 0 not in ops and len(ops) > 0 and ops[0] == 2


def real_histories():
    """concrete sweep of every history K <= 3 through the real writers on real files (validates the fakes' contracts)"""
    bad = []
    n = 0
    for adapter in ("stream", "json", "avro", "sqlite", "csv", "line", "text"):
        for k in (1, 2, 3):
            for ops in itertools.product(range(4), repeat=k):
                if not _ops_ok(ops):
                    continue
                if 0 not in ops and adapter in ("csv", "line", "text"):
                    continue
                n += 1
                p = _history_real(adapter, list(ops))
                if p:
                    key = K3 if _is_k3(adapter, ops) else "other"
                    bad.append((key, p))
    other = [p for k, p in bad if k != K3]
    k3 = [p for k, p in bad if k == K3]
    return {"ok": not bad, "detail": f"{n} histories on real files; " + "; ".join((other or k3)[:2]), "cex": {"kw": {"other": other[:5], "k3": k3[:3]}}}


def real_split():
    """real files: parts hold at most the limit, are readable on their own, concatenate record-wise AND as raw bytes to the input"""
    probs = []
    n = 0
    for total, count, L in ((0, 2, 2), (1, 1, 1), (5, 2, 2), (6, 3, 1), (11, 1, 1), (23, 2, 1), (101, 1, 2)):
        for fmt in ("{d}/out.records", "{d}/out.records.gz", "jsonfile://{d}/out.json"):
            n += 1
            p = _split_real(total, count, L, fmt)
            if p:
                probs.append(p)
    return {"ok": not probs, "detail": f"{n} split runs on real files; " + "; ".join(probs[:2]), "cex": {"kw": {"problems": probs[:5]}}}


def _split_real(n, count, L, uri_fmt):
    from flow.record import RecordDescriptor, RecordReader, RecordWriter

    D = RecordDescriptor("t/w", [("string", "s"), ("varint", "n")])
    with tempdir() as d:
        base = uri_fmt.format(d=d)
        w = RecordWriter(f"split://{base}?count={count}&suffix-length={L}" if "://" not in base else f"split+{base}?count={count}&suffix-length={L}")
        for i in range(n):
            w.write(D(f"r{i}", i))
        w.close()
        files = sorted(f for f in os.listdir(d))
        got = []
        for f in files:
            p = os.path.join(d, f)
            if os.path.getsize(p) == 0:
                continue
            try:
                part = [r.n for r in RecordReader(p)]
            except Exception as e:  # noqa: BLE001
                if f.endswith(".gz"):
                    import gzip

                    if gzip.decompress(open(p, "rb").read()) == b"":
                        continue  # a trailing part without records and without header: the known finding K3 (asserted in O2-empty)
                return f"split n={n} count={count}: part {f} cannot be read on its own: {type(e).__name__}: {e}"
            if len(part) > count:
                return f"split n={n} count={count}: part {f} holds {len(part)} records"
            got += part
        if sorted(got) != list(range(n)):
            missing = sorted(set(range(n)) - set(got))
            return f"split of {n} records with count={count}, suffix-length={L}: parts hold {len(got)} records, missing {missing[:6]} (files: {len(files)})"
        # ... and as raw bytes: the parts' bytes, concatenated in order, read as exactly the sequence written (record streams only)
        if "://" not in base and n:
            import re as _re

            def num(f):
                m = _re.search(r"\.(\d+)\.", f) or _re.search(r"\.(\d+)$", f)
                return int(m.group(1)) if m else -1

            cat = os.path.join(d, "all" + (".records.gz" if base.endswith(".gz") else ".records"))
            with open(cat, "wb") as out:
                for f in sorted(files, key=num):
                    out.write(open(os.path.join(d, f), "rb").read())
            try:
                items = list(RecordReader(cat))
                whole = [getattr(r, "n", f"<non-record {r!r}>") for r in items]
            except Exception as e:  # noqa: BLE001
                return f"split of {n} records with count={count}: the raw-byte concatenation of the parts cannot be read: {type(e).__name__}: {e}"
            if whole != list(range(n)):
                return f"split of {n} records with count={count}: the raw-byte concatenation of the parts reads as {whole[:12]}, written 0..{n - 1}"
    return None


def _rotation_real(cs, pres, same_second=True):
    import flow.record.stream as S
    from flow.record import RecordDescriptor, RecordReader, RecordWriter

    D = RecordDescriptor("t/arch", [("varint", "n")])
    with tempdir() as d:
        tmpl = os.path.join(d, "{ts:%Y%m%dT%H}.records.gz")
        paths = [tmpl.format(ts=b) for b in BUCKETS]
        for j, (p, pre) in enumerate(zip(paths, pres)):
            if pre:
                w = RecordWriter(p)
                w.write(D(900 + j))
                w.close()
        w = S.PathTemplateWriter(path_template=tmpl)
        for i, c in enumerate(cs):
            w.write(D(i, _generated=BUCKETS[c]))
        w.close()
        found = {}
        for f in sorted(os.listdir(d)):
            for r in RecordReader(os.path.join(d, f)):
                found.setdefault(r.n, []).append(f)
        want = list(range(len(cs))) + [900 + j for j, pre in enumerate(pres) if pre]
        lost = [n for n in want if n not in found]
        dup = [n for n in want if len(found.get(n, [])) > 1]
        if lost or dup:
            return f"archiving records with buckets {cs} (pre-existing targets {pres}): records lost {lost}, duplicated {dup}; files {sorted(os.listdir(d))}"
        for i, c in enumerate(cs):
            stem = os.path.basename(paths[c])[: -len(".records.gz")]
            if not found[i][0].startswith(stem):
                return f"record {i} of bucket {c} is in {found[i][0]}"
    return None


def _rotation_field_real(cs, hosts):
    """real files: template '{record.host}-{ts...}': every record is in the file its template names"""
    import flow.record.stream as S
    from flow.record import RecordDescriptor, RecordReader

    D = RecordDescriptor("t/arch", [("varint", "n"), ("string", "host")])
    with tempdir() as d:
        tmpl = os.path.join(d, "{record.host}-{ts:%Y%m%dT%H}.records.gz")
        w = S.PathTemplateWriter(path_template=tmpl)
        want = {}
        for i, (c, h) in enumerate(zip(cs, hosts)):
            r = D(i, h, _generated=BUCKETS[c])
            want[i] = os.path.basename(tmpl.format(record=r, ts=BUCKETS[c]))[: -len(".records.gz")]
            w.write(r)
        w.close()
        found = {}
        for f in sorted(os.listdir(d)):
            for r in RecordReader(os.path.join(d, f)):
                found.setdefault(int(r.n), []).append(f)
        for i in want:
            if len(found.get(i, [])) != 1:
                return f"archiving with a template that names a record field, buckets {cs}, hosts {hosts}: record {i} is in {found.get(i, [])}"
            if not found[i][0].startswith(want[i]):
                return f"archiving with a template that names a record field, buckets {cs}, hosts {hosts}: record {i} (host {hosts[i]}) is in {found[i][0]}, its template names {want[i]}.records.gz"
    return None


def replay(res):
    gid = res["id"]
    a = res["args"]
    if "O1-split-step" in gid or "O1-split-run" in gid or "split-suffix" in gid or "split-paths" in gid:
        cv = cex_args(res, ["n", "count"]) if "split-run" in gid else {}
        L = a.get("suffix_length", 1)
        probs = []
        combos = []
        if "n" in cv and "count" in cv and 0 <= cv["n"] <= 40 and 1 <= cv["count"] <= 40:
            combos.append((cv["n"], cv["count"], L))
        kw = (res.get("cex") or {}).get("kw") or {}
        if "file_count" in kw:
            fc = min(int(kw["file_count"]), 1500)
            combos.append((fc + 1, 1, int(kw.get("suffix_length", 1))))
        combos += [(n, c, l) for l in (1, 2) for c in (1, 2, 3) for n in (0, 1, c, c + 1, 3 * c, 10 * c, 10 * c + 1, 12 * c)] + [(101, 1, 2), (205, 2, 2)]
        for n, c, l in combos:
            for fmt in ("{d}/out.records", "jsonfile://{d}/out.json"):
                p = _split_real(n, c, l, fmt)
                if p:
                    probs.append(p)
                    break
            if probs:
                break
        return {"reproduced": bool(probs), "key": "C17/split/" + (probs[0][:60] if probs else ""), "what": "; ".join(probs[:2])[:600]}
    if "S3-real-split" in gid:
        out = real_split()
        return {"reproduced": not out["ok"], "key": "C17/split/real", "what": out["detail"][:600], "input": out["cex"]}
    if "O2-history" in gid or "O2-empty" in gid:
        adapter = a["adapter"]
        names = ["o0", "o1", "o2", "o3", "o4"] if "O2-history" in gid else ["o0", "o1", "o2"]
        cv = cex_args(res, names)
        ops = [cv[n] for n in names if n in cv][: a.get("k", 3)]
        cands = [ops] if ops and all(isinstance(o, int) and 0 <= o <= 3 for o in ops) and _ops_ok(ops) else []
        cands += [list(p) for k in (1, 2, 3, 4) for p in itertools.product(range(4), repeat=k) if _ops_ok(p) and (("O2-empty" in gid) == (0 not in p))]
        if adapter == "split":
            p = _split_real(3, 2, 2, "{d}/out.records")
            return {"reproduced": bool(p), "key": "C17/split/history", "what": p or ""}
        for ops in cands:
            p = _history_real(adapter, ops)
            if p:
                key = K3 if _is_k3(adapter, ops) else f"C17/{adapter}/" + "-".join(OPN[o] for o in ops)
                return {"reproduced": True, "key": key, "what": p[:600], "input": {"adapter": adapter, "ops": ops}}
        return {"reproduced": False, "what": "no history reproduces on real files"}
    if "O3-rotation/by-field" in gid:
        for cs in itertools.product(range(3), repeat=3):
            for hs in itertools.product(("h0", "h1"), repeat=3):
                p = _rotation_field_real(list(cs), list(hs))
                if p:
                    return {"reproduced": True, "key": "C17/rotation/by-field", "what": p[:600], "input": {"buckets": list(cs), "hosts": list(hs)}}
        return {"reproduced": False, "what": "templates naming a record field archive correctly on the real file system"}
    if "O3-rotation" in gid:
        cv = cex_args(res, ["c0", "c1", "c2", "c3", "pre0", "pre1", "pre2"])
        k = a.get("k", 3)
        cs = [cv.get(f"c{i}") for i in range(k)]
        pres = [bool(cv.get(f"pre{i}")) for i in range(3)]
        cands = [(cs, pres)] if all(isinstance(c, int) and 0 <= c <= 2 for c in cs) else []
        cands += [(list(c), list(p)) for c in itertools.product(range(3), repeat=3) for p in itertools.product((False, True), repeat=3)]
        for cs, pres in cands:
            p = _rotation_real(cs, pres)
            if p:
                return {"reproduced": True, "key": "C17/rotation/" + "".join(map(str, cs)), "what": p[:600], "input": {"buckets": cs, "pre": pres}}
        return {"reproduced": False, "what": "no bucket sequence reproduces on the real file system"}
    if "S2-real" in gid:
        out = real_histories()
        kw = out["cex"]["kw"]
        if kw["other"]:
            return {"reproduced": True, "key": "C17/real/" + kw["other"][0][:60], "what": "; ".join(kw["other"][:2])[:600]}
        if kw["k3"]:
            return {"reproduced": True, "key": K3, "what": kw["k3"][0][:600]}
        return {"reproduced": False, "what": "all real histories fine"}
    return {"reproduced": False, "what": "no replay"}
