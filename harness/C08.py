"""C08 - comparisons on a field the record lacks are false and never raise.

The grammar is finite and enumerated completely: operator x position of the missing operand x kind of the other operand
x boolean context x engine. Where the other operand is a field, its value is symbolic (all ints / strings <= 2 chars /
booleans / None). Stream level: the real RecordStreamReader.__iter__ and record_stream over a mixed list of records with
real selectors yield exactly the records that have the field and satisfy the condition.
"""
from typing import Optional

from harness.common import cex_args, mk, tempdir
from spec import grammar, selector_ref

PROPERTY = "C08"
FUNCTIONS = [
    "flow.record.selector:NoneObject",
    "flow.record.selector:WrappedRecord.__getattr__",
    "flow.record.selector:RecordContextMatcher._eval",
    "flow.record.selector:CompiledSelector.match",
    "flow.record.selector:Selector.match",
    "flow.record.selector:field_equals",
    "flow.record.selector:field_contains",
    "flow.record.selector:field_regex",
    "flow.record.stream:RecordStreamReader.__iter__",
    "flow.record.stream:record_stream",
]
BOUNDS = {
    "grammar": "8 operators x missing operand left/right/both x 12 kinds of other operand (incl. typed field matchers) x 4 contexts x 2 engines (complete), "
    "each evaluated by a selector object that matched a same-name record HAVING the fields before",
    "values": "other operand when it is a field: all ints, all strings <= 2 chars, both booleans, None or any int",
    "typed": "8 operators x 23 field types (every whitelisted kind incl. lists, nested record, dynamic) x both positions x 2 engines",
    "stream": "3 records of two layouts per source (different type names; the same type name in both orders), 2 sources, field values symbolic",
}
STUBS = ["stream level: RecordStreamReader.read / RecordReader hand out prepared records (decoding is C01/C03)"]
OUTSIDE = [
    "'x in <non-container>' (ill-typed for every record)",
    "'not in' in the compiled engine (Python negates __contains__ itself; the statement lists membership)",
    "arithmetic on a missing field",
]
ASSUMPTIONS = ["missing field = attribute the record's descriptor does not declare (r.zz on test/rec)"]

ob = mk("harness.C08", PROPERTY)

OPS = ["==", "!=", "<", "<=", ">", ">=", "in", "not in"]
# kind -> (text, is_container, symbolic)
KINDS = {
    "int": ("3", False, False),
    "str": ("'abc'", True, False),
    "bool": ("True", False, False),
    "none": ("None", False, False),
    "list": ("[1, 'a', None]", True, False),
    "tuple": ("(1, 2)", True, False),
    "f_int": ("r.n", False, True),
    "f_str": ("r.s", True, True),
    "f_bool": ("r.b", False, True),
    "f_opt": ("r.o", False, True),
    "f_list": ("[r.n, r.s]", True, True),
    "missing": ("r.yy", True, False),
    # a container display that itself holds a missing field; an attribute of the missing field as the compared operand
    "l_missing": ("[1, r.yy]", True, False),
    # typed field matchers ("all fields of that type") as the other operand
    "T_str": ("Type.string", True, True),
    "T_int": ("Type.varint", True, True),
}
CONTEXTS = {"bare": "{}", "and": "({}) and True", "or": "({}) or False", "not": "not ({})"}


ATTR_EXPRS = ["r.zz.filename == 'a'", "r.zz.filename != 'a'", "r.zz.year < 3", "'a' in r.zz.args", "r.zz.filename == r.s", "r.zz.a.b >= r.n", "lower(r.zz.filename) == 'a'", "r.zz.filename in ['a', r.s]"]


def table():
    """(expr, engine, expected truth, known-key or None)"""
    rows = []
    # the missing operand passed through lower()/upper() (they hand non-text through unchanged)
    for op in OPS:
        for h in ("lower", "upper"):
            for e, eng_ok in ((f"{h}(r.zz) {op} 'a'", "ic"), (f"'a' {op} {h}(r.zz)", "ic"), (f"{h}(r.zz) {op} r.s", "ic"), (f"{h}(r.zz) {op} {h}(r.yy)", "ic")):
                for eng in eng_ok:
                    if op == "not in" and eng == "c":
                        continue
                    if op in ("in", "not in") and eng == "c" and e.startswith(f"{h}(r.zz)"):
                        continue  # compiled '<missing> in <text>': the known finding K1 (asserted on the bare field)
                    rows.append((e, eng, False, "helper-wrapped", op, "left"))
    for e in ATTR_EXPRS:
        for eng in "ic":
            rows.append((e, eng, False, "attr", "attr", "left"))
            rows.append((f"not ({e})", eng, True, "attr", "attr", "left"))
    for op in OPS:
        for kind, (text, container, symbolic) in KINDS.items():
            for pos in ("left", "right"):
                if kind == "missing" and pos == "right":
                    continue
                a, b = ("r.zz", text) if pos == "left" else (text, "r.zz")
                if op in ("in", "not in") and pos == "left" and not container:
                    continue  # 'x in 3' is ill-typed for every record: not asserted
                if kind.startswith("T_") and pos == "left" and op in ("in", "not in"):
                    continue  # 'r.zz in Type.string': the typed matcher is no container of operands (TypeError for every record)
                core = f"{a} {op} {b}"
                for ctx, tmpl in CONTEXTS.items():
                    if not symbolic and ctx != "bare" and kind not in ("int", "list"):
                        continue
                    for eng in "ic":
                        if op == "not in" and eng == "c":
                            continue  # outside the claim (see OUTSIDE)
                        rows.append((tmpl.format(core), eng, ctx == "not", kind, op, pos))
    return rows


def earlier_record():
    """a record of the same type NAME whose layout does declare zz and yy (schema evolution within one stream)"""
    from flow.record import RecordDescriptor

    E = RecordDescriptor(grammar.RECNAME, [("varint", "zz"), ("string", "yy"), ("varint", "n"), ("string", "s")])
    return E(3, "abc", 3, "abc")


def comparison(expr: str, engine: str, expected: bool):
    from flow.record.selector import CompiledSelector, Selector

    import harness.C07 as C07

    C07.descriptor()
    sel = Selector(expr) if engine == "i" else CompiledSelector(expr)
    earlier = earlier_record()

    def check(n: int, s: str, b: bool, o: Optional[int]) -> bool:
        """
        post: _
        """
        if len(s) > 2:
            return True
        rec = C07.build_record(n, 0, s, "", b, o)
        # one selector object serves a whole stream: a record of the SAME type name that does have the fields came before
        try:
            sel.match(earlier)
        except Exception:  # noqa: BLE001
            pass
        return bool(sel.match(rec)) == expected

    return check


TYPED_FIELDS = [("net.ipaddress", "ip"), ("net.ipnetwork", "net"), ("command", "cmd"), ("path", "p"), ("uri", "u"), ("digest", "dg"), ("datetime", "dt"), ("bytes", "by"), ("float", "f"),
                ("string[]", "sl"), ("filesize", "fs"), ("wstring", "ws"), ("dictlist", "dl"), ("unix_file_mode", "m"), ("boolean", "b"), ("uint16", "u16"), ("uint32", "u32"), ("varint", "n"), ("string", "s"),
                ("net.ipaddress[]", "ipl"), ("stringlist", "stl"), ("record", "rec"), ("dynamic", "dyn")]
TYPED_CONTAINERS = {"sl", "dl", "ipl", "stl", "net"}  # kinds whose values are containers of operands ('x in r.f' is well-typed)


def typed_record():
    import datetime as _dt

    from flow.record import RecordDescriptor

    D = RecordDescriptor("test/typed", TYPED_FIELDS)
    In = RecordDescriptor("test/in", [("varint", "k")])
    return D("1.2.3.4", "10.0.0.0/8", "ls -l", "/a/b", "http://x/y", ("d41d8cd98f00b204e9800998ecf8427e", None, None), _dt.datetime(2020, 1, 1, tzinfo=_dt.timezone.utc), b"x", 1.5, ["a"], 10, "w",
             [{"a": 1}], 0o644, True, 3, 4, 5, "text", ["1.1.1.1"], ["z"], In(1), 7)


def typed_table():
    """comparisons between a field of every field type and a field the record lacks: (expr, engine)"""
    rows = []
    for _, f in TYPED_FIELDS:
        for op in OPS:
            for expr in (f"r.{f} {op} r.zz", f"r.zz {op} r.{f}"):
                for eng in "ic":
                    if op == "not in" and eng == "c":
                        continue  # outside the claim (see OUTSIDE)
                    if op in ("in", "not in") and expr.startswith("r.zz") and (eng == "c" and f not in TYPED_CONTAINERS):
                        continue  # compiled: 'x in <non-container>' is ill-typed for every record; '<missing> in <text>' is the known finding K1 (asserted in cmp/)
                    rows.append((expr, eng))
    return rows


def typed(lo: int, hi: int):
    """Path-exhaustive over the table (a symbolic index selects the comparison; typed values are C-level objects, so there is no value
    dimension here): every comparison is false and does not raise."""
    from crosshair.tracers import NoTracing
    from flow.record.selector import CompiledSelector, Selector

    rows = typed_table()[lo:hi]
    sels = [(Selector if eng == "i" else CompiledSelector)(expr) for expr, eng in rows]
    n = len(rows)
    rec = typed_record()

    def check(i: int) -> bool:
        """
        post: _
        """
        if not (0 <= i < n):
            return True
        sel = None
        for j in range(n):
            if i == j:
                sel = sels[j]
        with NoTracing():
            return not bool(sel.match(rec))

    return check


HELPERS = [
    "field_equals(r, ['zz', 's'], ['a', 'ab'], nocase=False)",
    "field_equals(r, ['zz'], ['a'], nocase=False)",
    "field_contains(r, ['zz', 's', 'yy'], ['a'], nocase=False)",
    "field_contains(r, ['zz'], ['a'], nocase=False)",
    "field_regex(r, ['zz', 's'], 'a+')",
    "field_regex(r, ['zz'], '.*')",
    "field_equals(r, ['s', 'zz'], ['a']) or r.zz == 1",
    "field_contains(r, ['zz'], ['a'], word_boundary=True)",
]


def helper(expr: str, engine: str):
    from flow.record.selector import CompiledSelector, Selector

    import harness.C07 as C07

    C07.descriptor()
    sel = Selector(expr) if engine == "i" else CompiledSelector(expr)
    # meaning: the same call with the missing fields removed from the field list
    ref_expr = expr.replace("'zz', ", "").replace(", 'yy'", "").replace("['zz']", "[]").replace(" or r.zz == 1", "")
    code, subs = selector_ref.compile_ref(ref_expr)

    def check(s: str) -> bool:
        """
        post: _
        """
        if len(s) > 2:
            return True
        ns = selector_ref.namespace({"n": 1, "m": 0, "s": s, "t": "", "b": False, "o": None}, grammar.FIELDS, grammar.RECNAME)
        defined, exp = selector_ref.evaluate(code, subs, ns)
        if not defined:
            return True
        rec = C07.build_record(1, 0, s, "", False, None)
        return bool(sel.match(rec)) == exp

    return check


class _Lacks:
    """reference for a field the record lacks: every comparison is false (the statement), so its negation is true"""

    def _f(self, other):
        return False

    __eq__ = __ne__ = __lt__ = __le__ = __gt__ = __ge__ = _f
    __hash__ = None

    def __contains__(self, x):
        return False


# programs that are TRUE on records lacking the field (negation / disjunction): those records belong to the output too
STREAM_PROGRAMS_NEG = ["not (r.n == 2)", "not (r.n < 2) and not (r.n > 4)", "r.n == 1 or not (r.n >= 0)", "not (r.n in [1, 2])", "not (r.n != 2)"]
STREAM_PROGRAMS = ["r.n == 2", "r.n != 2", "r.n < 2", "r.n <= 2", "r.n > 2", "r.n >= 2", "r.n in [1, 2]", "2 < r.n", "2 >= r.n", "r.n != 2 and r.n != 3", "r.n > 1 and r.n < 5", "r.n == 1 or r.n >= 3"]


def _descs(same=False):
    from flow.record import RecordDescriptor

    A = RecordDescriptor("test/a", [("varint", "n"), ("string", "s")])
    B = RecordDescriptor("test/a" if same else "test/b", [("string", "other")])
    return A, B


def stream(expr: str, engine: str, via: str, same: bool = False, order: int = 0):
    """Mixed stream: A(n1) B A(n2) | B A(n3) (order 1: B A(n1) A(n2) | A(n3) B): exactly the A records satisfying the condition come
    out. same=True: both layouts carry the same type name (one selector object, two layouts under one name)."""
    import flow.record.stream as S
    from flow.record.selector import CompiledSelector, Selector

    A, B = _descs(same)
    ref = compile(expr, "<ref>", "eval")

    def mkreader(recs, selector):
        rd = object.__new__(S.RecordStreamReader)
        rd.closed = False
        rd.selector = selector
        q = [A, B] + list(recs)

        def read():
            if not q:
                raise EOFError()
            return q.pop(0)

        rd.read = read

        class P:
            def register(self, d):
                pass

        rd.packer = P()
        return rd

    def check(n1: int, n2: int, n3: int) -> bool:
        """
        post: _
        """
        a1, a2, a3 = A(0, "x", _generated=1), A(0, "y", _generated=1), A(0, "z", _generated=1)
        for r, v in ((a1, n1), (a2, n2), (a3, n3)):
            object.__setattr__(r, "n", v)
        b1, b2 = B("p", _generated=1), B("q", _generated=1)
        sources = {"one": [a1, b1, a2], "two": [b2, a3]} if order == 0 else {"one": [b1, a1, a2], "two": [a3, b2]}
        sel = Selector(expr) if engine == "i" else CompiledSelector(expr)

        class R:
            pass

        exp = []
        order_ = [x for src in ("one", "two") for x in sources[src]]
        vals_ = {id(a1): n1, id(a2): n2, id(a3): n3}
        for x in order_:
            r = R()
            r.n = vals_[id(x)] if id(x) in vals_ else _Lacks()
            if eval(ref, {"r": r}):
                exp.append(x)
        if via == "reader":
            got = list(mkreader(sources["one"], sel)) + list(mkreader(sources["two"], sel))
        else:
            real = S.RecordReader
            S.RecordReader = lambda src, selector=None: mkreader(sources[src], selector)
            try:
                got = list(S.record_stream(["one", "two"], sel))
            finally:
                S.RecordReader = real
        return len(got) == len(exp) and all(g is e for g, e in zip(got, exp))

    return check


def obligations(tier, seed):
    obs = []
    to = 15 if tier == "quick" else 60
    for i, (expr, eng, expected, kind, op, pos) in enumerate(table()):
        obs.append(ob(f"cmp/{eng}/{i}:{expr}", "xh", "comparison", {"expr": expr, "engine": eng, "expected": expected}, timeout=to, group=f"cmp/{eng}", bounds="other operand symbolic where it is a field"))
    nt = len(typed_table())
    for lo in range(0, nt, 60):
        obs.append(ob(f"typed/{lo}", "xh", "typed", {"lo": lo, "hi": min(lo + 60, nt)}, timeout=to * 3, group="typed", bounds=f"comparisons {lo}..{min(lo + 60, nt)} of {nt}: 8 operators x 23 field types x both positions x 2 engines (index symbolic, path-exhaustive)"))
    for i, e in enumerate(HELPERS):
        for eng in "ic":
            obs.append(ob(f"helper/{eng}/{i}:{e}", "xh", "helper", {"expr": e, "engine": eng}, timeout=to, group="helper", bounds="s: all strings <= 2 chars", hunt_only=(("field_equals" in e or "field_contains" in e) and "nocase=False" not in e)))
    for i, e in enumerate(STREAM_PROGRAMS + STREAM_PROGRAMS_NEG):
        for eng in "ic":
            for via in ("reader", "record_stream"):
                obs.append(ob(f"stream/{via}/{eng}/{i}:{e}", "xh", "stream", {"expr": e, "engine": eng, "via": via}, timeout=to * 2, group=f"stream/{via}", bounds="n1, n2, n3: all ints"))
                for order in (0, 1):
                    obs.append(ob(f"stream-samename/{via}/{eng}/order{order}/{i}:{e}", "xh", "stream", {"expr": e, "engine": eng, "via": via, "same": True, "order": order}, timeout=to * 2,
                                  group=f"stream-samename/{via}", bounds="n1, n2, n3: all ints; both layouts under one type name"))
    return obs


# ------------------------------------------------------------------------------------------------ replay
def _key(expr, engine):
    import re

    core = expr
    if engine == "c" and re.search(r"r\.zz in ('|r\.s)", core):
        return "C08/compiled/in-str"
    if engine == "c" and "r.zz in [1, r.yy]" in core:
        return "C08/compiled/in-list-holding-missing"
    return f"C08/{engine}/{expr}"


def replay(res):
    from flow.record import RecordDescriptor
    from flow.record.selector import CompiledSelector, Selector

    import harness.C07 as C07

    a = res["args"]
    gid = res["id"]
    engine = a.get("engine", "i")
    cls = Selector if engine == "i" else CompiledSelector
    ename = cls.__name__
    if "/cmp/" in gid or gid.startswith("C08/cmp"):
        v = cex_args(res, ["n", "s", "b", "o"])
        v = {"n": v.get("n", 0), "s": v.get("s", ""), "b": v.get("b", False), "o": v.get("o")}
        D = C07.descriptor()
        tried = [v, {"n": 1, "s": "a", "b": True, "o": None}, {"n": 0, "s": "", "b": False, "o": 3}]
        for vals in tried:
            rec = D(vals["n"], 0, vals["s"], "", vals["b"], vals["o"])
            try:
                sel = cls(a["expr"])
                try:
                    sel.match(earlier_record())
                except Exception:  # noqa: BLE001
                    pass
                got = bool(sel.match(rec))
                raised = None
            except Exception as e:  # noqa: BLE001
                got, raised = None, f"{type(e).__name__}: {e}"
            if raised or got != a["expected"]:
                return {
                    "reproduced": True,
                    "key": _key(a["expr"], engine),
                    "what": f"{ename}({a['expr']!r}) on a record without field 'zz', after a record of the same type name that has it (n={vals['n']!r}, s={vals['s']!r}, b={vals['b']!r}, o={vals['o']!r}): "
                    + (f"raised {raised}" if raised else f"evaluated to {got}, expected {a['expected']}"),
                    "input": {"expr": a["expr"], "engine": engine, "values": vals},
                }
        return {"reproduced": False, "what": "comparison behaves as specified on the concrete values"}
    if gid.split("/")[1] == "typed":
        rec = typed_record()
        for expr, eng in typed_table()[a["lo"] : a["hi"]]:
            c = Selector if eng == "i" else CompiledSelector
            try:
                got = bool(c(expr).match(rec))
                raised = None
            except Exception as e:  # noqa: BLE001
                got, raised = None, f"{type(e).__name__}: {e}"
            if raised or got:
                ftype = dict((n_, t_) for t_, n_ in TYPED_FIELDS)[[tok for tok in expr.replace("r.zz", "").split() if tok.startswith("r.")][0][2:]]
                return {"reproduced": True, "key": f"C08/typed/{eng}/{ftype}/{expr.split()[1] if expr.split()[1] != 'not' else 'not in'}",
                        "what": f"{c.__name__}({expr!r}) on a record without field 'zz' ({ftype} field on the other side): " + (f"raised {raised}" if raised else "evaluated to True, expected False"), "input": {"expr": expr, "engine": eng}}
        return {"reproduced": False, "what": "typed comparisons behave as specified"}
    if "helper" in gid:
        v = cex_args(res, ["s"])
        s = v.get("s", "a")
        D = C07.descriptor()
        rec = D(1, 0, s, "", False, None)
        ref_expr = a["expr"].replace("'zz', ", "").replace(", 'yy'", "").replace("['zz']", "[]").replace(" or r.zz == 1", "")
        ns = selector_ref.namespace({"n": 1, "m": 0, "s": s, "t": "", "b": False, "o": None}, grammar.FIELDS, grammar.RECNAME)
        code, subs = selector_ref.compile_ref(ref_expr)
        defined, exp = selector_ref.evaluate(code, subs, ns)
        try:
            got = bool(cls(a["expr"]).match(rec))
            raised = None
        except Exception as e:  # noqa: BLE001
            got, raised = None, f"{type(e).__name__}: {e}"
        bad = defined and (raised is not None or got != exp)
        return {"reproduced": bool(bad), "key": f"C08/helper/{engine}/{a['expr']}", "what": f"{ename}({a['expr']!r}) with s={s!r}: {'raised ' + raised if raised else got}; skipping the missing fields gives {exp}", "input": {"expr": a["expr"], "s": s}}
    if "stream" in gid:
        # real files, real RecordWriter / record_stream
        from flow.record import RecordWriter
        from flow.record.stream import record_stream

        v = cex_args(res, ["n1", "n2", "n3"])
        candidates = [[v.get("n1", 0), v.get("n2", 0), v.get("n3", 0)], [1, 2, 3], [2, 2, 5], [0, 3, 2]]
        A, B = _descs(a.get("same", False))
        order = a.get("order", 0)
        for ns_ in candidates:
            with tempdir() as d:
                p1, p2 = d + "/one.records", d + "/two.records"
                one = [A(ns_[0], "x"), B("p"), A(ns_[1], "y")] if order == 0 else [B("p"), A(ns_[0], "x"), A(ns_[1], "y")]
                two = [B("q"), A(ns_[2], "z")] if order == 0 else [A(ns_[2], "z"), B("q")]
                for p, recs in ((p1, one), (p2, two)):
                    w = RecordWriter(p)
                    for r_ in recs:
                        w.write(r_)
                    w.flush(); w.close()
                sel = cls(a["expr"])
                got = [(r._desc.name, getattr(r, "n", None)) for r in record_stream([p1, p2], sel)]

                class R:
                    pass

                exp = []
                for rec_ in one + two:
                    r = R()
                    r.n = int(rec_.n) if hasattr(rec_, "n") else _Lacks()
                    if eval(a["expr"], {"r": r}):
                        exp.append((rec_._desc.name, getattr(rec_, "n", None)))
                if got != exp:
                    return {
                        "reproduced": True,
                        "key": f"C08/stream/{engine}/{a['expr']}" + ("/samename" if a.get("same") else ""),
                        "what": f"record_stream over a mixed stream{' (both layouts under one type name)' if a.get('same') else ''} with {ename}({a['expr']!r}) and n = {ns_}: got {got}, expected {exp}",
                        "input": {"expr": a["expr"], "n": ns_},
                    }
        return {"reproduced": False, "what": "mixed stream filtered as specified"}
    return {"reproduced": False, "what": "no replay"}
