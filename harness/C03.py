"""C03 - every record is decoded with the descriptor it was written with.

O1 collision witnesses (SMT-Str): the hash-input expression of calc_descriptor_hash (from the AST) over two field lists whose
   names satisfy the real name regex and whose types are whitelisted: equal input, different lists. A witness is replayed on
   the real code (equal identifiers) and joins the universe U of O2/O3.
O2 registry pre-states: a symbolic subset of U already emitted on the stream (plus which type was emitted last), then one more
   record: the stream read back yields every record with exactly its own descriptor (binary stream and JSON lines).
O3 bounded histories over two writers that are open at the same time.
The structure (subsets, histories) is the symbolic dimension: CrossHair closes every feasible path (path-exhaustive).
"""
import io
import json
import os

import z3

from harness.common import cex_args, mk, tempdir

PROPERTY = "C03"
FUNCTIONS = [
    "flow.record.packer:RecordPacker.register",
    "flow.record.packer:RecordPacker.pack_obj",
    "flow.record.packer:RecordPacker.unpack_obj",
    "flow.record.jsonpacker:JsonRecordPacker.register",
    "flow.record.jsonpacker:JsonRecordPacker.pack_obj",
    "flow.record.jsonpacker:JsonRecordPacker.unpack_obj",
    "flow.record.stream:RecordStreamWriter.write",
    "flow.record.stream:RecordStreamWriter.on_new_descriptor",
    "flow.record.stream:RecordStreamReader.__iter__",
    "flow.record.adapter.jsonfile:JsonfileWriter._write",
    "flow.record.adapter.jsonfile:JsonfileReader.__iter__",
    "flow.record.base:RecordDescriptor.calc_descriptor_hash",
    "flow.record.base:GroupedRecord.__init__",
]
BOUNDS = {
    "universe": "|U| = 7 record kinds: a pair with coinciding identifiers, a same-name/different-fields type, a holder with a record field, "
    "a holder with record[], a grouped record, a nested group",
    "pre-states": "all 2^7 subsets of U already emitted x which kind was emitted last x every next kind",
    "histories": "K = 3 (quick) / 4 (thorough) steps, each (kind, writer in {0, 1}), two writers open at the same time, over the main universe and over a second "
    "universe of 9 kinds (grouped records with equal group name and flat layout but different member types, type names differing only in '/' vs '_', a write that fails while packing)",
    "collision query": "two lists of 2 (type, name) pairs, names <= 6 chars in the real field-name language, types in WHITELIST(+[])",
}
STUBS = ["none for the stream layer: the concrete part of every path runs the real writers/readers with real msgpack/json (outside CrossHair's tracer; only the choice of history is symbolic)"]
OUTSIDE = ["collisions of the 32-bit truncation of SHA-256 between different hash inputs (not searchable by a solver)"]
ASSUMPTIONS = ["a reader of a stream resolves an identifier to the last descriptor frame with that identifier (published format)"]

ob = mk("harness.C03", PROPERTY)

STATIC_PAIR = ([("stringlist", "a"), ("string", "b")], [("string", "a"), ("string", "listb")])


def solve_collision(timeout_ms=60000, npairs=2, maxlen=6):
    """Witness query generated from the real hash-input expression and the real field-name regex."""
    import flow.record.base as B
    from flow.record.whitelist import WHITELIST
    from vf.smt import regex
    from vf.smt.kse import Encoded, Evaluator, Untranslatable, get_function_ast

    fn, mod, _ = get_function_ast("flow.record.base:RecordDescriptor.calc_descriptor_hash")
    name_rx = regex.to_z3(B.RE_VALID_FIELD_NAME, "match")
    types = list(WHITELIST) + [t + "[]" for t in WHITELIST]
    name = z3.StringVal("t/x")
    lists = []
    terms = []
    cons = []
    for side in "AB":
        fields = tuple((z3.String(f"{side}t{i}"), z3.String(f"{side}n{i}")) for i in range(npairs))
        ev = Evaluator(mod, width=64)
        outs = list(ev.run(list(fn.body), {"name": name, "fields": fields}, []))
        if len(ev.hashes) != 1 or not isinstance(ev.hashes[0].arg, Encoded):
            raise Untranslatable("hash input not found")
        terms.append(ev.hashes[0].arg.term)
        lists.append(fields)
        for t, n in fields:
            cons.append(z3.Or(*[t == z3.StringVal(x) for x in types]))
            cons.append(z3.InRe(n, name_rx))
            cons.append(z3.Length(n) <= maxlen)
            cons.append(z3.Not(z3.PrefixOf(z3.StringVal("_"), n)))
            cons.append(z3.Not(z3.SuffixOf(z3.StringVal("\n"), n)))
        for i in range(npairs):
            for j in range(i + 1, npairs):
                cons.append(fields[i][1] != fields[j][1])
    s = z3.Solver()
    s.set("timeout", timeout_ms)
    s.add(*cons)
    s.add(terms[0] == terms[1])
    s.add(z3.Or(*[z3.Or(a[0] != b[0], a[1] != b[1]) for a, b in zip(lists[0], lists[1])]))
    import time

    t = time.perf_counter()
    r = str(s.check())
    dt = time.perf_counter() - t
    if r != "sat":
        return r, None, dt
    m = s.model()
    pair = tuple([(regex.model_string(m, t), regex.model_string(m, n)) for t, n in fl] for fl in lists)
    return r, pair, dt


def collision_witness():
    """SMT obligation: decide the collision query; a witness must really collide in the real code (translator validation)."""
    from flow.record import RecordDescriptor
    from vf.smt.kse import Untranslatable

    try:
        r, pair, dt = solve_collision()
    except Untranslatable as e:
        return {"verdict": "unknown", "detail": f"untranslatable: {e}", "queries": 0, "solver_s": 0.0}
    if r == "unsat":
        return {"verdict": "unsat", "detail": "no two valid field lists of 2 pairs (names <= 6 chars) share a hash input: the identifier is injective within the bound", "queries": 1, "solver_s": dt}
    if r != "sat":
        return {"verdict": "unknown", "detail": r, "queries": 1, "solver_s": dt}
    A = RecordDescriptor("t/x", pair[0])
    B = RecordDescriptor("t/x", pair[1])
    if A.identifier != B.identifier or A == B:
        return {"verdict": "error", "detail": f"solver witness {pair} does not collide in the real code (translation wrong)", "queries": 1, "solver_s": dt}
    # the witness is an input for O2/O3, not a violation by itself: decided and validated
    return {"verdict": "unsat", "detail": f"decided: witness {pair} has equal identifiers in the real code; it is part of the universe of O2/O3", "queries": 1, "solver_s": dt, "validated": 1, "witness": [list(map(list, p)) for p in pair]}


def colliding_pair():
    """The pair used by O2/O3: the static one if it (still) collides in the real code, otherwise a fresh solver witness."""
    from flow.record import RecordDescriptor

    a, b = STATIC_PAIR
    A = RecordDescriptor("t/x", a)
    B = RecordDescriptor("t/x", b)
    if A.identifier == B.identifier:
        return A, B
    try:
        r, pair, _ = solve_collision(timeout_ms=30000)
        if pair:
            A2, B2 = RecordDescriptor("t/x", pair[0]), RecordDescriptor("t/x", pair[1])
            if A2.identifier == B2.identifier:
                return A2, B2
    except Exception:  # noqa: BLE001
        pass
    return A, B  # no collision available: the universe simply has two more same-name types


_U = None
_U2 = None
NKINDS = 8
NAUX = 9
FAILING = {("aux", 7)}
# the type name a kind's record was CREATED with (look-alike names may end up sharing a generated class: the record itself is then no
# reliable witness of its own type name)
CREATED_AS = {("aux", 4): "t/p_q", ("aux", 5): "t_p/q", ("aux", 6): "t_p_q"}


def written_obs(u, kind, rec, flat):
    o = obs(rec, flat)
    name = CREATED_AS.get((u, kind))
    return o if name is None else (name,) + tuple(o[1:])  # kinds whose write() must raise and leave nothing of the record in the stream


class Unpackable:
    """a value no serialiser knows: writing a record that holds it fails while the record is being packed"""


def universe(which="main"):
    """list of functions i -> record (fresh each call)"""
    global _U, _U2
    if which == "aux":
        if _U2 is None:
            _U2 = aux_universe()
        return _U2
    if _U is not None:
        return _U
    from flow.record import GroupedRecord, RecordDescriptor

    A, B = colliding_pair()
    C = RecordDescriptor("t/x", [("string", "c")])
    H = RecordDescriptor("t/h", [("record", "inner"), ("varint", "k")])
    HL = RecordDescriptor("t/hl", [("record[]", "many")])
    E = RecordDescriptor("t/only_nested", [("varint", "e")])
    # a type whose nested record carries the SAME name with other fields (a newer variant holding an older one): two same-name
    # descriptors are announced while one record is written
    X2 = RecordDescriptor("t/x", [("record", "parent"), ("string", "c")])

    def val(desc, tag):
        out = []
        for t, n in desc.get_field_tuples():
            out.append([tag + n] if t.endswith("list") or t.endswith("[]") else tag + n)
        return desc(*out)

    _U = [
        lambda: val(A, "A"),
        lambda: val(B, "B"),
        lambda: C("c-value"),
        lambda: H(C("inner-c"), 7),
        lambda: HL([val(B, "m"), C("c-in-list"), E(5)]),
        lambda: GroupedRecord("g/r", [E(9), val(A, "g")]),
        lambda: GroupedRecord("g/n", [C("first"), GroupedRecord("g/in", [val(B, "n"), H(None, 1)])]),
        lambda: X2(C("older"), "newer"),
    ]
    return _U


def aux_universe():
    """second universe: grouped records that share group name AND flattened field list but are composed of different member types;
    type names that differ only in '/' versus '_' (they map to the same Python class name) with identical fields; a record whose
    write fails while it is being packed (its type not announced before), followed by good records of that type"""
    from flow.record import GroupedRecord, RecordDescriptor

    M = RecordDescriptor("a/host", [("string", "host")])
    V1 = RecordDescriptor("a/geo_v1", [("varint", "lat")])
    V2 = RecordDescriptor("a/geo_v2", [("varint", "lat")])
    MV = RecordDescriptor("a/hostgeo", [("string", "host"), ("varint", "lat")])
    P1 = RecordDescriptor("t/p_q", [("string", "v")])
    P2 = RecordDescriptor("t_p/q", [("string", "v")])
    P3 = RecordDescriptor("t_p_q", [("string", "v")])
    F = RecordDescriptor("a/fragile", [("dictlist", "d"), ("string", "tag")])
    return [
        lambda: GroupedRecord("g/same", [M("h0"), V1(10)]),
        lambda: GroupedRecord("g/same", [M("h1"), V2(11)]),
        lambda: GroupedRecord("g/same", [MV("h2", 12)]),
        lambda: V2(13),
        lambda: P1("p1"),
        lambda: P2("p2"),
        lambda: P3("p3"),
        lambda: F([{"k": Unpackable()}], "bad"),
        lambda: F([{"k": 1}], "good"),
    ]


def obs(r, flat=False):
    """flat=True: a grouped record is observed through its flat descriptor (what the JSON format stores, by design)"""
    from flow.record import GroupedRecord, Record

    if isinstance(r, GroupedRecord) and not flat:
        return ("G", r.name, tuple(obs(x) for x in r.records))
    if isinstance(r, Record):
        return (r._desc.name, r._desc.get_field_tuples(), tuple(obs(getattr(r, f), flat) for f in r._desc.fields))
    if isinstance(r, list):
        return tuple(obs(x, flat) for x in r)
    return (type(r).__name__, repr(r))


class _NoCloseBytes(io.BytesIO):
    def close(self):
        pass


class _NoCloseText(io.StringIO):
    def close(self):
        pass


def run_history(fmt, steps, nwriters=2, u="main", share=False):
    """Concrete: write the history (kind index, writer index) through real writers, read every stream back with the real
    reader; returns None if every stream yields its own records with exactly their descriptors, else a description."""
    from flow.record.adapter.jsonfile import JsonfileReader, JsonfileWriter
    from flow.record.jsonpacker import JsonRecordPacker
    from flow.record.stream import RecordStreamReader, RecordStreamWriter

    U = universe(u)
    if fmt == "stream":
        bufs = [_NoCloseBytes() for _ in range(nwriters)]
        ws = [RecordStreamWriter(b) for b in bufs]
    else:
        bufs = [_NoCloseText() for _ in range(nwriters)]
        ws = [JsonfileWriter(b) for b in bufs]
    written = [[] for _ in range(nwriters)]
    objs = {}
    for kind, w in steps:
        # share: the application writes the SAME record object whenever the kind recurs (e.g. one record sent to two outputs)
        rec = objs.setdefault(kind, U[kind]()) if share else U[kind]()
        if (u, kind) in FAILING:
            # the application catches the error and goes on writing: nothing of this record may be in the stream
            try:
                ws[w].write(rec)
            except Exception:  # noqa: BLE001
                continue
            return f"writer {w}: writing a record with an unserialisable value did not raise"
        ws[w].write(rec)
        written[w].append(written_obs(u, kind, rec, fmt == "json"))
    for i in range(nwriters):
        ws[i].flush()
        try:
            if fmt == "stream":
                got = [obs(r) for r in RecordStreamReader(io.BytesIO(bufs[i].getvalue()))]
            else:
                rd = object.__new__(JsonfileReader)
                rd.selector = None
                rd.fp = bufs[i].getvalue().splitlines()
                rd.packer = JsonRecordPacker()
                got = [obs(r, True) for r in rd]
        except Exception as e:  # noqa: BLE001
            got = f"{type(e).__name__}: {e}"
        ws[i].fp = None
        if got != written[i]:
            if isinstance(got, str):
                return f"writer {i}: reading back raised {got}"
            for k, (g, x) in enumerate(zip(got + [None] * len(written[i]), written[i])):
                if g != x:
                    return f"writer {i}: record {k} read back as {g}, written {x}"
            return f"writer {i}: {len(got)} records read, {len(written[i])} written"
    return None


def prestate(fmt: str, nxt: int, u: str = "main"):
    from crosshair.tracers import NoTracing

    n = NKINDS if u == "main" else NAUX

    def check(b0: bool, b1: bool, b2: bool, b3: bool, b4: bool, b5: bool, b6: bool, b7: bool, b8: bool, last: int) -> bool:
        """
        post: _
        """
        if not (-1 <= last < n) or (b8 and n < 9):
            return True
        steps = []
        for i, b in enumerate((b0, b1, b2, b3, b4, b5, b6, b7, b8)):
            if b:
                steps.append((i, 0))
        for j in range(n):
            if last == j:
                steps.append((j, 0))
        steps.append((nxt, 0))
        with NoTracing():
            return run_history(fmt, steps, 1, u) is None

    return check


def history(fmt: str, k: int, first: int, u: str = "main", share: bool = False):
    """first = code of the first step (kind * 2 + writer); the remaining k-1 steps are symbolic"""
    from crosshair.tracers import NoTracing

    n = NKINDS if u == "main" else NAUX

    def check(c1: int, c2: int, c3: int) -> bool:
        """
        post: _
        """
        codes = [c1, c2, c3][: k - 1]
        if not all(0 <= c < 2 * n for c in codes):
            return True
        steps = [(first // 2, first % 2)]
        for c in codes:
            for j in range(2 * n):
                if c == j:
                    steps.append((j // 2, j % 2))
        with NoTracing():
            return run_history(fmt, steps, 2, u, share) is None

    return check


def obligations(tier, seed):
    obs_ = [ob("O1-collision-witness", "smt", "collision_witness", {}, timeout=120, bounds="2 pairs per list, names <= 6 chars")]
    to = 120 if tier == "quick" else 600
    for fmt in ("stream", "json"):
        for nxt in range(NKINDS):
            obs_.append(ob(f"O2-prestate/{fmt}/next{nxt}", "xh", "prestate", {"fmt": fmt, "nxt": nxt}, timeout=to, group=f"O2-prestate/{fmt}", bounds="2^8 subsets x last-emitted kind"))
        k = 3 if tier == "quick" else 4
        for first in range(2 * NKINDS):
            obs_.append(ob(f"O3-history/{fmt}/K{k}/first{first}", "xh", "history", {"fmt": fmt, "k": k, "first": first}, timeout=to, group=f"O3-history/{fmt}", bounds=f"{k} steps x {NKINDS} kinds x 2 writers"))
        # the same record OBJECT written again (to the other writer or the same one): state kept on a record must not stand in for
        # what a writer has to emit
        for first in range(2 * NKINDS):
            obs_.append(ob(f"O3-history-shared/{fmt}/K3/first{first}", "xh", "history", {"fmt": fmt, "k": 3, "first": first, "share": True}, timeout=to, group=f"O3-history-shared/{fmt}", bounds=f"3 steps x {NKINDS} kinds x 2 writers, one record object per kind"))
        # second universe (grouped records of equal flat layout, look-alike type names, a failing write)
        for first in range(2 * NAUX):
            obs_.append(ob(f"O3-history-aux/{fmt}/K{k}/first{first}", "xh", "history", {"fmt": fmt, "k": k, "first": first, "u": "aux"}, timeout=to, group=f"O3-history-aux/{fmt}", bounds=f"{k} steps x {NAUX} kinds x 2 writers"))
        if tier == "thorough":
            for nxt in range(NAUX):
                obs_.append(ob(f"O2-prestate-aux/{fmt}/next{nxt}", "xh", "prestate", {"fmt": fmt, "nxt": nxt, "u": "aux"}, timeout=to, group=f"O2-prestate-aux/{fmt}", bounds="2^9 subsets x last-emitted kind"))
    return obs_


# ------------------------------------------------------------------------------------------------ replay (path based)
def real_history(fmt, steps, u="main", share=False):
    from flow.record import RecordReader, RecordWriter

    U = universe(u)
    with tempdir() as d:
        paths = [os.path.join(d, f"w{i}." + ("records" if fmt == "stream" else "json")) for i in (0, 1)]
        ws = [RecordWriter(p) for p in paths]
        written = [[], []]
        objs = {}
        for kind, w in steps:
            rec = objs.setdefault(kind, U[kind]()) if share else U[kind]()
            if (u, kind) in FAILING:
                try:
                    ws[w].write(rec)
                except Exception:  # noqa: BLE001
                    continue
                return f"writer {w}: writing a record with an unserialisable value did not raise"
            ws[w].write(rec)
            written[w].append(written_obs(u, kind, rec, fmt == "json"))
        for w in ws:
            w.flush()
            w.close()
        for i, p in enumerate(paths):
            try:
                with RecordReader(p) as rd:
                    got = [obs(r, fmt == "json") for r in rd]
            except Exception as e:  # noqa: BLE001
                return f"writer {i}: reading {os.path.basename(p)} raised {type(e).__name__}: {e}"
            if got != written[i]:
                for k, (g, x) in enumerate(zip(got + [None] * len(written[i]), written[i])):
                    if g != x:
                        return f"writer {i}: record {k} read back as {g}, written {x}"
                return f"writer {i}: {len(got)} records read, {len(written[i])} written"
    return None


def replay(res):
    a = res["args"]
    gid = res["id"]
    if "collision" in gid:
        return {"reproduced": False, "what": "collision witnesses are inputs, not violations: " + res["detail"][:200]}
    u = a.get("u", "main")
    n = NKINDS if u == "main" else NAUX
    if "prestate" in gid:
        names = ["b0", "b1", "b2", "b3", "b4", "b5", "b6", "b7", "b8", "last"]
        v = cex_args(res, names)
        steps = [(i, 0) for i in range(n) if v.get(f"b{i}")]
        if isinstance(v.get("last"), int) and 0 <= v["last"] < n:
            steps.append((v["last"], 0))
        steps.append((a["nxt"], 0))
    else:
        v = cex_args(res, ["c1", "c2", "c3"])
        steps = [(a["first"] // 2, a["first"] % 2)]
        for c in [v.get("c1"), v.get("c2"), v.get("c3")][: a["k"] - 1]:
            if isinstance(c, int) and 0 <= c < 2 * n:
                steps.append((c // 2, c % 2))
    problem = real_history(a["fmt"], steps, u, a.get("share", False))
    if problem is None:
        return {"reproduced": False, "what": f"history {steps} reads back exactly through the path-based writers/readers"}
    names_ = ["collidingA", "collidingB", "same-name", "holder(record)", "holder(record[])", "grouped", "nested-group", "same-name-holder"]
    if u == "aux":
        names_ = ["group[host,geo_v1]", "group[host,geo_v2]", "group[hostgeo]", "geo_v2", "t/p_q", "t_p/q", "t_p_q", "failing-write", "fragile-good"]
    hist = [(names_[k], w) for k, w in steps]
    key = "C03/identifier-collision" if u == "main" and any(k in (0, 1) for k, _ in steps) and "identifier" in problem else f"C03/{a['fmt']}/{u}/{steps}"
    return {"reproduced": True, "key": key, "what": f"{a['fmt']}: history {hist}{' (one record object per kind)' if a.get('share') else ''}: {problem}"[:700], "input": {"fmt": a["fmt"], "steps": steps, "share": a.get("share", False)}}
