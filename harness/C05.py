"""C05 - record fields always hold values of their declared type.

O1 validators, symbolic at the comparison: the real __init__ of the range-checking types on a pre-allocated instance, the
   digest setters over a symbolic text length / hex-ness, net.ipaddress over all ints, typed lists of carriers, bytes.
O2 plumbing and exception safety: Record.__setattr__, the generated __init__, _replace, init_from_dict over a candidate table
   per field type (valid, boundary, just outside, wrong kind, sibling type, None) and two-step operation histories; the choice
   of candidates and operations is symbolic (path-exhaustive), the concrete part of a path runs the real code outside the tracer.
"""
import binascii
import datetime as _dt
import re
from typing import Optional

from harness.common import cex_args, mk

PROPERTY = "C05"
FUNCTIONS = [
    "flow.record.base:Record.__setattr__",
    "flow.record.base:Record._replace",
    "flow.record.base:RecordDescriptor.init_from_dict",
    "flow.record.base:_generate_record_class",
    "flow.record.fieldtypes:uint16.__init__",
    "flow.record.fieldtypes:uint32.__init__",
    "flow.record.fieldtypes:boolean.__init__",
    "flow.record.fieldtypes:bytes.__init__",
    "flow.record.fieldtypes:digest.__init__",
    "flow.record.fieldtypes:typedlist.__init__",
    "flow.record.fieldtypes:typedlist._convert",
    "flow.record.fieldtypes.net.ip:ipaddress.__init__",
]
BOUNDS = {
    "validators": "all ints for uint16/uint32/boolean/net.ipaddress; digest text of any length with symbolic hex-ness; lists of <= 3 carriers",
    "plumbing": "16 field types x candidate table (4-18 candidates each) x 5 second operations x candidate; two-step histories (thorough: also every three-step history)",
}
STUBS = [
    "binascii.a2b_hex replaced by a model that looks only at length parity and a symbolic 'all characters are hex digits' bit (content of a 32-64 character text is beyond CrossHair)",
    "stdlib ipaddress._check_int_address / ip_address without their formatted error messages (formatting realises the symbolic integer)",
    "digest text = object with a symbolic length; its content is abstracted to one symbolic bit",
]
OUTSIDE = ["conversion inside C constructors (naive->UTC, bytes->text)", "digest text with whitespace is covered only through the candidate table"]
ASSUMPTIONS = ["validity predicates per declared type are written from the property text (harness/C05.py:VALID)"]

ob = mk("harness.C05", PROPERTY)


# ------------------------------------------------------------------------------------------------ O1 validators
def int_validator(typename: str):
    from flow.record import fieldtypes as FT

    cls = getattr(FT, typename)
    lo, hi = {"uint16": (0, 0xFFFF), "uint32": (0, 0xFFFFFFFF), "boolean": (0, 1)}[typename]

    def check(v: int) -> bool:
        """
        post: _
        """
        obj = int.__new__(cls, 0)
        try:
            cls.__init__(obj, v)
        except ValueError:
            return v < lo or v > hi
        stored = obj.value
        return lo <= v <= hi and stored == v and obj._pack() == v

    return check


def ip_validator():
    import ipaddress as ipa

    from flow.record.fieldtypes.net.ip import ipaddress as F

    def quiet(self, address):
        if address < 0:
            raise ipa.AddressValueError("negative")
        if address > self._ALL_ONES:
            raise ipa.AddressValueError("too large")

    def quiet_ip_address(address):
        # stdlib ipaddress.ip_address without its f-string error message (repr of the symbolic integer realises it)
        try:
            return ipa.IPv4Address(address)
        except (ipa.AddressValueError, ipa.NetmaskValueError):
            pass
        try:
            return ipa.IPv6Address(address)
        except (ipa.AddressValueError, ipa.NetmaskValueError):
            pass
        raise ValueError("does not appear to be an IPv4 or IPv6 address")

    import flow.record.fieldtypes.net.ip as IPMOD

    def check(v: int) -> bool:
        """
        post: _
        """
        saved = ipa._IPAddressBase._check_int_address
        saved2 = IPMOD.ip_address
        ipa._IPAddressBase._check_int_address = quiet
        IPMOD.ip_address = quiet_ip_address
        try:
            try:
                a = F(v)
            except ValueError:
                return v < 0 or v >= 2**128
        finally:
            ipa._IPAddressBase._check_int_address = saved
            IPMOD.ip_address = saved2
        return 0 <= v < 2**128 and int(a.val) == v and a.val.version == (4 if v < 2**32 else 6)

    return check


def digest_setter(member: str):
    import flow.record.fieldtypes as FT

    want = {"md5": 16, "sha1": 20, "sha256": 32}[member]

    class FakeBin:
        def __init__(self, n):
            self.n = n

        def __len__(self):
            return self.n

    class Text:
        """text of symbolic length whose content is abstracted to the 'allhex' bit (not a str: formatting it into an error
        message must not realise anything)"""

        def __init__(self, n):
            self.n = n

        def __len__(self):
            return self.n

        def __repr__(self):
            return "<text>"

    def check(n: int, allhex: bool, prev_set: bool, none: bool) -> bool:
        """
        post: _
        """
        if n < 0:
            return True
        val = Text(n)

        def model_a2b_hex(s):
            if s.n % 2 != 0:
                raise binascii.Error("Odd-length string")
            if not allhex:
                raise binascii.Error("Non-hexadecimal digit found")
            return FakeBin(s.n // 2)

        def assign(obj, value):
            # plain attribute assignment: CrossHair's setattr() patch runs property setters outside the tracer
            if member == "md5":
                obj.md5 = value
            elif member == "sha1":
                obj.sha1 = value
            else:
                obj.sha256 = value

        saved = FT.a2b_hex
        d = FT.digest()
        good = "0" * (2 * want)
        if prev_set:
            assign(d, good)
        FT.a2b_hex = model_a2b_hex
        before = getattr(d, member)
        packed_before = d._pack()  # the binary halves: what equality, hashing and the writers use
        try:
            try:
                assign(d, None if none else val)
            except TypeError:
                rejected_rightly = (not none) and not (allhex and n == 2 * want)
                packed_after = d._pack()
                same_packed = len(packed_after) == len(packed_before) and all(x is y for x, y in zip(packed_after, packed_before))
                return rejected_rightly and getattr(d, member) is before and same_packed
        finally:
            FT.a2b_hex = saved
        if none:
            return getattr(d, member) is None
        return allhex and n == 2 * want and getattr(d, member) is val

    return check


def typed_list():
    from flow.record.base import fieldtype

    T = fieldtype("record[]")

    def check(n: int, e0: int, e1: int, e2: int, kind: int) -> bool:
        """
        post: _
        """
        if not (0 <= n <= 3 and 0 <= kind <= 2):
            return True
        items = []
        if n >= 1:
            items.append(e0)
        if n >= 2:
            items.append(e1)
        if n >= 3:
            items.append(e2)
        arg = None if kind == 0 else (items if kind == 1 else tuple(items))
        lst = T(arg)
        exp = [] if kind == 0 else items
        return isinstance(lst, T) and len(lst) == len(exp) and all(a == b for a, b in zip(lst, exp))

    return check


def bytes_validator():
    from flow.record import fieldtypes as FT

    cands = [b"", b"\x00\xff", "text", 5, None, bytearray(b"x"), [1, 2], 1.5]

    def check(i: int) -> bool:
        """
        post: _
        """
        if not (0 <= i < len(cands)):
            return True
        v = None
        for j in range(len(cands)):
            if i == j:
                v = cands[j]
        try:
            out = FT.bytes(v)
        except (TypeError, ValueError):
            return not isinstance(v, bytes)
        return isinstance(v, bytes) and bytes(out) == v

    return check


# ------------------------------------------------------------------------------------------------ O2 plumbing
FIELDS = [
    ("uint16", "p"), ("uint32", "q"), ("boolean", "b"), ("varint", "n"), ("string", "s"), ("bytes", "y"), ("digest", "d"), ("net.ipaddress", "ip"),
    ("datetime", "ts"), ("string[]", "sl"), ("uint16[]", "ul"), ("float", "f"), ("path", "pa"), ("record", "r"), ("net.ipaddress[]", "ipl"), ("net.ipnetwork", "nw"),
]
MD5 = "d41d8cd98f00b204e9800998ecf8427e"
_D = None


def descriptor():
    global _D
    if _D is None:
        from flow.record import RecordDescriptor

        _D = RecordDescriptor("test/typed", FIELDS)
    return _D


def candidates(typename):
    """[(value factory, accepted?)] - acceptance written from the property text, independent of the repo"""
    from flow.record import RecordDescriptor
    from flow.record import fieldtypes as FT

    inner = RecordDescriptor("test/inner", [("varint", "k")])
    utc = _dt.timezone.utc
    T = {
        "uint16": [(0, True), (0xFFFF, True), (0x10000, False), (-1, False), (None, True), (lambda: FT.uint32(70000), False), (lambda: FT.varint(-5), False), (lambda: FT.uint32(7), True), (True, True), (2**64, False)],
        "uint32": [(0, True), (0xFFFFFFFF, True), (0x100000000, False), (-1, False), (None, True), (lambda: FT.varint(2**40), False), (lambda: FT.uint16(9), True), (2**70, False)],
        "boolean": [(0, True), (1, True), (True, True), (False, True), (2, False), (-1, False), (None, True), (lambda: FT.uint16(2), False), (lambda: FT.varint(3), False)],
        "varint": [(0, True), (-(2**70), True), (2**200, True), (None, True), ("12", True), ("x", False), (lambda: FT.uint16(5), True)],
        "string": [("", True), ("text", True), (b"\xff\xfe", True), (None, True), (5, True)],
        "bytes": [(b"", True), (b"\x00", True), ("text", False), (5, False), (None, True), ([1], False)],
        "digest": [((MD5, None, None), True), ((None, None, None), True), (None, True), (("abcd", None, None), False), ((MD5[:-1] + "g", None, None), False), ((MD5 + "00", None, None), False),
                   ((MD5[:8] + " " + MD5[8:16] + " " + MD5[16:24] + " " + MD5[24:], None, None), False), ((" " + MD5, None, None), False), ((MD5 + "\n", None, None), False),
                   ({"md5": MD5.upper()}, True), ((None, "da39a3ee5e6b4b0d3255bfef95601890afd8070", None), False)],
        # (values that already are field values of a sibling type: a network is not an address and vice versa)
        "net.ipaddress": [("1.2.3.4", True), ("::1", True), (0, True), (2**128 - 1, True), (2**128, False), (-1, False), ("1.2.3.256", False), ("not an ip", False), (None, True),
                          (lambda: FT.net.ipnetwork("10.0.0.0/8"), False), (lambda: FT.net.ipnetwork("::/0"), False), (lambda: FT.net.ipaddress("9.9.9.9"), True), ("10.0.0.0/8", False),
                          # an integer address arriving as an int SUBCLASS (value of an integer field), then wrong kinds that are numerically equal to it
                          (lambda: FT.uint32(167772161), True), (True, True), (167772161.0, False), (lambda: __import__("decimal").Decimal(167772161), False), (1.0, False),
                          # objects of the standard library's ipaddress module: an address is one, an interface (address/prefix, a SUBCLASS of the address classes) is not
                          (lambda: __import__("ipaddress").ip_address("9.9.9.9"), True), (lambda: __import__("ipaddress").ip_interface("10.0.0.1/8"), False),
                          (lambda: __import__("ipaddress").ip_interface("fe80::1/64"), False), (lambda: __import__("ipaddress").ip_network("10.0.0.0/8"), False)],
        "net.ipaddress[]": [([], True), (["1.2.3.4", "::1"], True), (None, True), (lambda: [FT.net.ipnetwork("10.0.0.0/8")], False), (["1.2.3.4", "10.0.0.0/8"], False), (lambda: [FT.net.ipaddress("::2")], True),
                            (lambda: [FT.uint32(167772161)], True), ([167772161.0], False), (lambda: ["1.2.3.4", __import__("ipaddress").ip_interface("10.0.0.1/8")], False)],
        "net.ipnetwork": [("10.0.0.0/8", True), ("::/0", True), ("1.2.3.4", True), (None, True), ("10.0.0.1/8", False), ("garbage", False), (lambda: FT.net.ipnetwork("192.168.0.0/16"), True),
                          (lambda: FT.uint32(167772161), True), (167772161.0, False), (lambda: __import__("ipaddress").ip_interface("10.0.0.1/8"), False),
                          (lambda: __import__("ipaddress").ip_network("10.0.0.0/8"), True)],
        "datetime": [(lambda: _dt.datetime(2020, 1, 1), True), (lambda: _dt.datetime(2020, 1, 1, tzinfo=utc), True), ("2020-01-01T00:00:00", True), (0, True), ("garbage", False), (None, True)],
        "string[]": [([], True), (["a", "b"], True), (None, True), (["a", b"\xff"], True), (("t",), True)],
        "uint16[]": [([], True), ([0, 0xFFFF], True), ([1, 0x10000], False), ([-1], False), (None, True), (lambda: [FT.uint32(70000)], False), (lambda: [FT.uint16(3)], True)],
        "float": [(0.0, True), (1, True), ("1.5", True), ("x", False), (None, True)],
        "path": [("/a/b", True), ("", True), ("C:\\x", True), (None, True)],
        "record": [(lambda: inner(1), True), (None, True)],
    }[typename]
    return [(v if callable(v) else (lambda v=v: v), ok) for v, ok in T]


def valid(typename, value):
    """Independent validity predicate: the slot holds None/the documented empty default or a value of the declared type."""
    from flow.record import Record
    from flow.record import fieldtypes as FT

    if value is None:
        return True  # unset
    if typename.endswith("[]"):
        elem = typename[:-2]
        return type(value).__name__ == typename and isinstance(value, list) and all(x is not None and valid(elem, x) for x in value)
    if typename == "uint16":
        return isinstance(value, FT.uint16) and 0 <= int(value) <= 0xFFFF and value._pack() == int(value)
    if typename == "uint32":
        return isinstance(value, FT.uint32) and 0 <= int(value) <= 0xFFFFFFFF and value._pack() == int(value)
    if typename == "boolean":
        return isinstance(value, FT.boolean) and int(value) in (0, 1)
    if typename == "varint":
        return isinstance(value, FT.varint)
    if typename == "string":
        return isinstance(value, FT.string)
    if typename == "bytes":
        return isinstance(value, FT.bytes)
    if typename == "float":
        return isinstance(value, FT.float)
    if typename == "path":
        return isinstance(value, FT.path)
    if typename == "record":
        return isinstance(value, Record)
    if typename == "datetime":
        return isinstance(value, FT.datetime) and value.tzinfo is not None
    if typename == "net.ipaddress":
        import ipaddress as _ipa

        return type(value).__name__ == "ipaddress" and type(value.val) in (_ipa.IPv4Address, _ipa.IPv6Address)
    if typename == "net.ipnetwork":
        import ipaddress as _ipa

        return type(value).__name__ == "ipnetwork" and type(value.val) in (_ipa.IPv4Network, _ipa.IPv6Network)
    if typename == "digest":
        if not isinstance(value, FT.digest):
            return False
        for text, n in ((value.md5, 32), (value.sha1, 40), (value.sha256, 64)):
            if text is not None and not (isinstance(text, str) and re.fullmatch("[0-9a-fA-F]{%d}" % n, text)):
                return False
        return True
    return False


def baseline():
    from flow.record import RecordDescriptor

    inner = RecordDescriptor("test/inner", [("varint", "k")])
    return descriptor()(1, 2, True, 3, "s", b"y", (MD5, None, None), "10.0.0.1", _dt.datetime(2021, 1, 1, tzinfo=_dt.timezone.utc), ["x"], [5], 1.5, "/p", inner(9), ["1.1.1.1"], "10.0.0.0/8", _generated=_dt.datetime(2021, 1, 1, tzinfo=_dt.timezone.utc))


def _packed(v):
    try:
        return repr(v._pack()) if hasattr(v, "_pack") else repr(v)
    except Exception as e:  # noqa: BLE001
        return f"<_pack raised {type(e).__name__}>"


def snapshot(rec):
    """identity, printable form AND packed form of every slot (a half-applied change may leave the printable form intact)"""
    return [(k, id(getattr(rec, k)), repr(getattr(rec, k)), _packed(getattr(rec, k))) for k in rec.__slots__]


def all_valid(rec):
    for t, n in FIELDS:
        if not valid(t, getattr(rec, n)):
            return f"field {n} ({t}) holds {getattr(rec, n)!r} ({type(getattr(rec, n)).__name__})"
    return None


NOPS = 5  # assign, replace, construct, init_from_dict, assign through a grouped record


def run_steps(fidx, c1, op2, c2, op3=None, c3=None):
    """-> None if the property holds on this history (two steps, or three when op3/c3 are given), else a description."""
    from flow.record.packer import RecordPacker

    typename, fname = FIELDS[fidx]
    cands = candidates(typename)
    D = descriptor()
    rec = baseline()
    history = []
    for step, (op, c) in enumerate(((0, c1), (op2, c2)) + (((op3, c3),) if op3 is not None else ())):
        make, ok = cands[c]
        value = make()
        before = snapshot(rec)
        target = rec
        try:
            if op == 0:
                setattr(rec, fname, value)
            elif op == 1:
                target = rec._replace(**{fname: value})
            elif op == 2:
                kw = {n: getattr(rec, n) for _, n in FIELDS}
                kw[fname] = value
                target = D(**kw)
            elif op == 3:
                kw = {n: getattr(rec, n) for _, n in FIELDS}
                kw[fname] = value
                kw["unknown_key"] = 1
                target = D.init_from_dict(kw)
            else:
                # attribute assignment through a grouped record that holds the record as a member (it is the member that changes)
                from flow.record import GroupedRecord, RecordDescriptor

                other = RecordDescriptor("test/other_member", [("string", "zz_other")])("x")
                setattr(GroupedRecord("test/group", [other, rec]), fname, value)
            raised = None
        except Exception as e:  # noqa: BLE001
            raised = e
        history.append((("assign", "replace", "construct", "init_from_dict", "assign-through-group")[op], fname, repr(value)[:60], "raised " + type(raised).__name__ if raised else "accepted"))
        if raised is not None:
            if ok:
                return f"{history}: a representable value was rejected ({raised})"
            if snapshot(rec) != before:
                return f"{history}: the rejected operation changed the record: {[b for a, b in zip(before, snapshot(rec)) if a != b][:2]}"
            continue
        if not ok:
            return f"{history}: a value the type cannot represent was accepted; field now holds {getattr(target, fname)!r}"
        if op not in (0, 4) and snapshot(rec) != before:
            return f"{history}: copying modified the original record"
        bad = all_valid(target)
        if bad:
            return f"{history}: {bad}"
        rec = target
    bad = all_valid(rec)
    if bad:
        return f"{history}: {bad}"
    try:
        p = RecordPacker()
        back = p.unpack(p.pack(rec))
    except Exception as e:  # noqa: BLE001
        return f"{history}: a record that accepted all its assignments cannot be serialised: {type(e).__name__}: {e}"
    return None


def plumbing(fidx: int):
    from crosshair.tracers import NoTracing

    ncand = len(candidates(FIELDS[fidx][0]))

    def check(c1: int, op2: int, c2: int) -> bool:
        """
        post: _
        """
        if not (0 <= c1 < ncand and 0 <= c2 < ncand and 0 <= op2 < NOPS):
            return True
        a = b = o = 0
        for j in range(ncand):
            if c1 == j:
                a = j
            if c2 == j:
                b = j
        for j in range(NOPS):
            if op2 == j:
                o = j
        with NoTracing():
            return run_steps(fidx, a, o, b) is None

    return check


def plumbing3(fidx: int, c1: int):
    """three-step histories (thorough tier): the first candidate is fixed by the driver, the other two operations and candidates are symbolic"""
    from crosshair.tracers import NoTracing

    ncand = len(candidates(FIELDS[fidx][0]))

    def check(op2: int, c2: int, op3: int, c3: int) -> bool:
        """
        post: _
        """
        if not (0 <= c2 < ncand and 0 <= c3 < ncand and 0 <= op2 < NOPS and 0 <= op3 < NOPS):
            return True
        b = c = o2 = o3 = 0
        for j in range(ncand):
            if c2 == j:
                b = j
            if c3 == j:
                c = j
        for j in range(NOPS):
            if op2 == j:
                o2 = j
            if op3 == j:
                o3 = j
        with NoTracing():
            return run_steps(fidx, c1, o2, b, o3, c) is None

    return check


def obligations(tier, seed):
    obs = []
    to = 30 if tier == "quick" else 120
    for t in ("uint16", "uint32", "boolean"):
        obs.append(ob(f"O1-validator/{t}", "xh", "int_validator", {"typename": t}, timeout=to, group="O1-validator", bounds="all ints"))
    obs.append(ob("O1-validator/net.ipaddress", "xh", "ip_validator", {}, timeout=to, group="O1-validator", bounds="all ints"))
    for m in ("md5", "sha1", "sha256"):
        obs.append(ob(f"O1-digest/{m}", "xh", "digest_setter", {"member": m}, timeout=to, group="O1-digest", bounds="text of any length, symbolic hex-ness, previous value set or not"))
    obs.append(ob("O1-typedlist", "xh", "typed_list", {}, timeout=to, group="O1-validator", bounds="<= 3 carrier elements, None / list / tuple"))
    obs.append(ob("O1-bytes", "xh", "bytes_validator", {}, timeout=to, group="O1-validator", bounds="8 kinds of argument"))
    for i, (t, n) in enumerate(FIELDS):
        obs.append(ob(f"O2-plumbing/{t}", "xh", "plumbing", {"fidx": i}, timeout=to * 4, group="O2-plumbing", bounds=f"{len(candidates(t))} candidates x 5 operations x {len(candidates(t))} candidates"))
    if tier == "thorough":
        for i, (t, n) in enumerate(FIELDS):
            for c1 in range(len(candidates(t))):
                obs.append(ob(f"O2-plumbing3/{t}/first{c1}", "xh", "plumbing3", {"fidx": i, "c1": c1}, timeout=600, group="O2-plumbing3", bounds=f"three-step histories: (5 operations x {len(candidates(t))} candidates)^2 after candidate {c1}"))
    return obs


# ------------------------------------------------------------------------------------------------ replay
def replay(res):
    a = res["args"]
    gid = res["id"]
    if "O2-plumbing3" in gid:
        v = cex_args(res, ["op2", "c2", "op3", "c3"])
        n = len(candidates(FIELDS[a["fidx"]][0]))
        tries = []
        if all(isinstance(v.get(k), int) for k in ("op2", "c2", "op3", "c3")) and 0 <= v["c2"] < n and 0 <= v["c3"] < n and 0 <= v["op2"] < NOPS and 0 <= v["op3"] < NOPS:
            tries.append((v["op2"], v["c2"], v["op3"], v["c3"]))
        tries += [(o2, c2, o3, c3) for o2 in range(NOPS) for c2 in range(n) for o3 in range(NOPS) for c3 in range(n)]
        for o2, c2, o3, c3 in tries:
            p = run_steps(a["fidx"], a["c1"], o2, c2, o3, c3)
            if p:
                t = FIELDS[a["fidx"]][0]
                return {"reproduced": True, "key": f"C05/{t}/{p.split(':', 1)[1][:40] if ':' in p else p[:40]}", "what": p[:700], "input": {"field": FIELDS[a["fidx"]], "history": [a["c1"], o2, c2, o3, c3]}}
        return {"reproduced": False, "what": "three-step histories behave as specified"}
    if "O2-plumbing" in gid:
        v = cex_args(res, ["c1", "op2", "c2"])
        n = len(candidates(FIELDS[a["fidx"]][0]))
        tries = []
        if all(isinstance(v.get(k), int) for k in ("c1", "op2", "c2")) and 0 <= v["c1"] < n and 0 <= v["c2"] < n and 0 <= v["op2"] < NOPS:
            tries.append((v["c1"], v["op2"], v["c2"]))
        tries += [(c1, op, c2) for c1 in range(n) for op in range(NOPS) for c2 in range(n)]
        for c1, op, c2 in tries:
            problem = run_steps(a["fidx"], c1, op, c2)
            if problem:
                return {"reproduced": True, "key": f"C05/{FIELDS[a['fidx']][0]}/{problem.split(':')[-1][:40]}", "what": problem[:600], "input": {"field": FIELDS[a["fidx"]], "c1": c1, "op2": op, "c2": c2}}
        return {"reproduced": False, "what": "no history over the candidate table violates the property"}
    # validators: replay through the public API (a record with that field)
    from flow.record import RecordDescriptor

    if "O1-validator/" in gid and gid.split("/")[-1] in ("uint16", "uint32", "boolean", "net.ipaddress"):
        t = gid.split("/")[-1]
        v = cex_args(res, ["v"]).get("v", 0)
        D = RecordDescriptor("test/one", [(t, "x")])
        rng = {"uint16": (0, 0xFFFF), "uint32": (0, 0xFFFFFFFF), "boolean": (0, 1), "net.ipaddress": (0, 2**128 - 1)}[t]
        for val in [v, rng[0], rng[1], rng[0] - 1, rng[1] + 1]:
            rec = D(rng[0])
            try:
                rec.x = val
                acc = True
            except Exception:  # noqa: BLE001
                acc = False
            should = rng[0] <= val <= rng[1]
            if acc != should or (acc and not valid(t, rec.x)) or (not acc and not valid(t, rec.x)):
                return {"reproduced": True, "key": f"C05/{t}/range", "what": f"{t} field: assigning {val} was {'accepted' if acc else 'rejected'}, field holds {rec.x!r}", "input": {"type": t, "value": str(val)}}
        return {"reproduced": False, "what": "range behaves as specified on the boundary values"}
    if "O1-digest" in gid:
        m = a["member"]
        n = {"md5": 32, "sha1": 40, "sha256": 64}[m]
        D = RecordDescriptor("test/dg", [("digest", "d")])
        ln = cex_args(res, ["n"]).get("n")
        v = "0" * ln if isinstance(ln, int) and 0 <= ln < 200 else None
        for val in [v, "0" * n, "0" * (n - 2), "0" * (n + 2), "g" * n, "0" * (n - 1), ""]:
            if not isinstance(val, str):
                continue
            rec = D()
            twin = D()
            setattr(rec.d, m, "f" * n)
            setattr(twin.d, m, "f" * n)
            twin._generated = rec._generated
            try:
                setattr(rec.d, m, val)
                acc = True
            except Exception:  # noqa: BLE001
                acc = False
            should = bool(re.fullmatch("[0-9a-fA-F]{%d}" % n, val))
            now = getattr(rec.d, m)
            if acc != should or (not acc and now != "f" * n) or (acc and now != val):
                return {"reproduced": True, "key": f"C05/digest/{m}", "what": f"digest.{m} = {val!r}: {'accepted' if acc else 'rejected'}, member now {now!r}", "input": {"member": m, "value": val}}
            if not acc:
                # a rejected assignment leaves the record unchanged: it still equals its untouched twin and still serialises to the same bytes
                from flow.record.packer import RecordPacker

                try:
                    same = rec == twin and rec._pack() == twin._pack() and RecordPacker().pack(rec) == RecordPacker().pack(twin)
                    back = RecordPacker()
                    back.register(D)
                    ok_rt = getattr(back.unpack(RecordPacker().pack(rec)).d, m) == "f" * n
                except Exception as e:  # noqa: BLE001
                    same, ok_rt = False, f"{type(e).__name__}: {e}"
                if not same or ok_rt is not True:
                    return {"reproduced": True, "key": f"C05/digest/{m}/rejected-changes-packed", "what": f"the rejected assignment digest.{m} = {val!r} changed the record: it no longer equals / serialises like its untouched twin ({ok_rt})", "input": {"member": m, "value": val}}
        return {"reproduced": False, "what": "digest setter behaves as specified on the probe values"}
    return {"reproduced": False, "what": "no public-API replay for this obligation"}
