"""C10 - reading with a selector equals filtering afterwards; matching is pure.

O1 filter loops: the real ``__iter__`` of every reader adapter runs over N prepared records with an
   *uninterpreted* selector (N symbolic booleans = every selector's outcome vector).
O2 purity / history independence of the real ``Selector.match`` and ``CompiledSelector.match`` over symbolic
   field values of two records.
"""
import json
import os

from harness.common import OutcomeSelector, cex_args, mk, tempdir

PROPERTY = "C10"
FUNCTIONS = [
    "flow.record.stream:RecordStreamReader.__iter__",
    "flow.record.stream:RecordStreamReader.__init__",
    "flow.record.adapter.jsonfile:JsonfileReader.__iter__",
    "flow.record.adapter.avro:AvroReader.__iter__",
    "flow.record.adapter.csvfile:CsvfileReader.__iter__",
    "flow.record.adapter.sqlite:SqliteReader.__iter__",
    "flow.record.selector:make_selector",
    "flow.record.selector:Selector.match",
    "flow.record.selector:CompiledSelector.match",
    "flow.record.selector:RecordContextMatcher.matches",
    "flow.record.selector:RecordContextMatcher._eval",
]
BOUNDS = {"kinds": "histories of 3 (4 thorough) records over 7 kinds (same-name layouts, grouped records of different composition, nested holder) x 15 programs, one selector object", "records per source": "N <= 4 (quick) / 6 (thorough), every outcome vector in {0,1}^N", "purity": "all ints, strings <= 3 chars, for a fixed list of selector programs"}
STUBS = [
    "decoding collaborators of each reader (read/packer.unpack/fastavro reader/csv reader/read_table) hand out prepared records",
    "selector = object whose match() returns the i-th symbolic boolean and logs its argument",
]
OUTSIDE = ["the decoders in front of each filter loop (C03/C14 or not applicable)", "selectors over floats, datetimes"]
ASSUMPTIONS = [
    "a reader consults its selector only inside __iter__ (checked: the harness drives the real __iter__)",
    "CrossHair 0.0.110 path exploration is complete when it reports 'Confirmed over all paths'",
]

ob = mk("harness.C10", PROPERTY)
NMAX = 6


def _recs():
    from flow.record import RecordDescriptor

    D = RecordDescriptor("test/rec", [("varint", "n")])
    return D, [D(i, _generated=1) for i in range(NMAX)]


def _expected(recs, outs):
    return [r for r, b in zip(recs, outs) if b]


def _same(got, exp):
    return len(got) == len(exp) and all(g is e for g, e in zip(got, exp))


def loop(reader: str, n: int):
    from flow.record import RecordDescriptor
    from flow.record.adapter.avro import AvroReader
    from flow.record.adapter.csvfile import CsvfileReader
    from flow.record.adapter.jsonfile import JsonfileReader
    from flow.record.adapter.sqlite import SqliteReader
    from flow.record.stream import RecordStreamReader

    D, RECS = _recs()
    RECS = RECS[:n]
    CD = RecordDescriptor("csv/reader", [("string", "n")])

    def check(b0: bool, b1: bool, b2: bool, b3: bool, b4: bool, b5: bool) -> bool:
        """
        post: _
        """
        outs = [b0, b1, b2, b3, b4, b5][:n]
        sel = OutcomeSelector(outs)
        if reader == "stream":
            rd = object.__new__(RecordStreamReader)
            rd.closed = False
            rd.selector = sel
            q = [b"RECORDSTREAM\n", D] + list(RECS[: n // 2]) + [D] + list(RECS[n // 2 :])

            def read():
                if not q:
                    raise EOFError()
                return q.pop(0)

            rd.read = read

            class P:
                def register(self, d):
                    pass

            rd.packer = P()
            got = list(rd)
            return _same(got, _expected(RECS, outs)) and _same(sel.seen, RECS)
        if reader == "json":
            rd = object.__new__(JsonfileReader)
            rd.selector = sel
            rd.fp = ["d"] + [str(i) for i in range(n // 2)] + ["d"] + [str(i) for i in range(n // 2, n)]

            class P:
                def unpack(self, line):
                    return D if line == "d" else RECS[int(line)]

            rd.packer = P()
            got = list(rd)
            return _same(got, _expected(RECS, outs)) and _same(sel.seen, RECS)
        if reader == "jsonplain":
            # plain JSON lines (no descriptors): the fallback branch builds json/record records
            rd = object.__new__(JsonfileReader)
            rd.selector = sel
            rd.fp = ['{"n": %d}' % i for i in range(n)]

            class P:
                def unpack(self, line):
                    return json.loads(line)

            rd.packer = P()
            got = [r.n for r in rd]
            return got == [i for i, b in zip(range(n), outs) if b] and [r.n for r in sel.seen] == list(range(n))
        if reader == "avro":
            rd = object.__new__(AvroReader)
            rd.selector = sel
            rd.desc = D
            rd.datetime_fields = set()
            rd.reader = [{"n": i} for i in range(n)]
            got = [r.n for r in rd]
            return got == [i for i, b in zip(range(n), outs) if b] and [r.n for r in sel.seen] == list(range(n))
        if reader == "csv":
            rd = object.__new__(CsvfileReader)
            rd.selector = sel
            rd.desc = CD
            rd.fields = ["n"]
            rd.reader = [[str(i)] for i in range(n)]
            got = [r.n for r in rd]
            return got == [str(i) for i, b in zip(range(n), outs) if b] and [r.n for r in sel.seen] == [str(i) for i in range(n)]
        if reader == "sqlite":
            rd = object.__new__(SqliteReader)
            rd.selector = sel
            rd.table_names = lambda: ["a", "b", "c"]
            rd.read_table = lambda t: iter({"a": RECS[: n // 2], "b": [], "c": RECS[n // 2 :]}[t])
            got = list(rd)
            return _same(got, _expected(RECS, outs)) and _same(sel.seen, RECS)
        raise AssertionError(reader)

    return check


def noselector(reader: str):
    """Without a selector every record is yielded (the other half of the equation)."""
    from flow.record.adapter.sqlite import SqliteReader
    from flow.record.stream import RecordStreamReader

    D, RECS = _recs()

    def check(k: int) -> bool:
        """
        post: _
        """
        if not (0 <= k <= NMAX):
            return True
        recs = []
        for i in range(NMAX):
            if i < k:
                recs.append(RECS[i])
        if reader == "stream":
            rd = object.__new__(RecordStreamReader)
            rd.closed = False
            rd.selector = None
            q = [D] + list(recs)

            def read():
                if not q:
                    raise EOFError()
                return q.pop(0)

            rd.read = read

            class P:
                def register(self, d):
                    pass

            rd.packer = P()
            return _same(list(rd), recs)
        rd = object.__new__(SqliteReader)
        rd.selector = None
        rd.table_names = lambda: ["a"]
        rd.read_table = lambda t: iter(recs)
        return _same(list(rd), recs)

    return check


def mksel():
    from flow.record.selector import CompiledSelector, Selector, make_selector

    def check(kind: int, force: bool) -> bool:
        """
        post: _
        """
        if not (0 <= kind <= 4):
            return True
        text = "r.n == 1"
        if kind == 0:
            return make_selector(None, force) is None and make_selector("", force) is None
        if kind == 1:
            s = make_selector(text, force)
            return type(s) is (CompiledSelector if force else Selector) and str(s) == text
        if kind == 2:
            orig = Selector(text)
            s = make_selector(orig, force)
            if force:
                return type(s) is CompiledSelector and str(s) == text
            return s is orig
        if kind == 3:
            orig = CompiledSelector(text)
            return make_selector(orig, force) is orig
        orig = Selector(text)
        return make_selector(orig, False) is orig

    return check


PURITY_EXPRS = [
    "r.n > 3",
    "r.n == r.m",
    "r.s in ['a', r.t]",
    "'a' in r.s",
    "r.n in (1, 2, r.m)",
    "any(x == r.n for x in [1, 2, r.m])",
    "all(x != r.s for x in ['a', r.t])",
    "r.b and r.n > 1 or r.s == 'ab'",
    "not r.b",
    "Type.varint == 3",
    "'a' in Type.string",
    "any([r.n == 1, r.m == 1])",
    "all((r.b, r.n > 0))",
    "r.n + r.m == 5",
    "name(r) == 'test/rec' and r.n != 0",
    "has_field(r, 's') and r.missing == 1",
    "field_equals(r, ['s', 't'], ['a'], nocase=False)",
    "Type.string == r.s",
    "1 < r.n < r.m",
]


def purity(expr: str, engine: str):
    from flow.record import RecordDescriptor
    from flow.record.selector import CompiledSelector, Selector

    D = RecordDescriptor("test/rec", [("varint", "n"), ("string", "s"), ("varint", "m"), ("string", "t"), ("boolean", "b")])
    cls = Selector if engine == "i" else CompiledSelector

    def build(n, s, m, t, b):
        rec = D(0, "", 0, "", False, _generated=1)
        for k, v in (("n", n), ("s", s), ("m", m), ("t", t), ("b", b)):
            object.__setattr__(rec, k, v)
        return rec

    def check(n1: int, s1: str, m1: int, b1: bool, n2: int, s2: str, m2: int, b2: bool) -> bool:
        """
        post: _
        """
        if len(s1) > 2 or len(s2) > 2:
            return True
        r1 = build(n1, s1, m1, "b", b1)
        r2 = build(n2, s2, m2, "a", b2)
        p1 = r1._pack()
        p2 = r2._pack()
        sel = cls(expr)
        a1 = bool(sel.match(r1))
        a2 = bool(sel.match(r2))
        fresh = bool(cls(expr).match(r2))
        again2 = bool(sel.match(r2))
        again1 = bool(sel.match(r1))
        return a2 == fresh and again2 == a2 and again1 == a1 and r1._pack() == p1 and r2._pack() == p2

    return check


def sqlite_paged(n: int = 3, m: int = 1, batch: int = 1):
    """The real SqliteReader.__iter__ AND the real read_table (fetchmany pagination) over a statement-level connection model with an
    uninterpreted selector: rows of two tables, reader batch size symbolic - every page boundary x every outcome vector."""
    from flow.record.adapter.sqlite import SqliteReader
    from harness import C18
    from vf.ob import HarnessInconclusive

    tables = {"t/a": [("n", "BIGINT"), ("s", "TEXT")], "t/b": [("k", "BIGINT")]}

    def check(b0: bool, b1: bool, b2: bool, b3: bool, b4: bool, b5: bool) -> bool:
        """
        post: _
        """
        outs = [b0, b1, b2, b3, b4, b5][: n + m]
        rows_a = [(0, "r0"), (1, "r1"), (2, "r2"), (3, "r3")][:n]
        rows_b = [(10,), (11,)][:m]
        rd = object.__new__(SqliteReader)
        sel = OutcomeSelector(outs)
        rd.selector = sel
        rd.descriptors_seen = set()
        rd.con = C18.ReadCon(tables, {"t/a": rows_a, "t/b": rows_b})
        rd.count = 0
        rd.batch_size = batch
        try:
            got = list(rd)
        except C18.UnknownSQL as e:
            raise HarnessInconclusive(f"statement not modelled: {e}")
        # every row was offered to the selector exactly once, in order; exactly the accepted ones come out, by identity
        keys = [getattr(r, "n", None) if r._desc.name == "t/a" else r.k for r in sel.seen]
        if keys != [r[0] for r in rows_a] + [r[0] for r in rows_b]:
            return False
        want = [r for r, b in zip(sel.seen, outs) if b]
        return len(got) == len(want) and all(g is w for g, w in zip(got, want))

    return check


KIND_EXPRS = [
    "'evil' in Type.string",
    "Type.varint == 3",
    "Type.string == 'evil'",
    "field_contains(r, Type.string, ['evil'])",
    "field_equals(r, Type.string, ['evil'], nocase=False)",
    "r.x == 3",
    "r.k == 3 or r.n == 3",
    "r.w == 'evil' or r.u == 'evil'",
    "has_field(r, 'k')",
    "name(r) == 'grp' and r.x != 1",
    "names(r) == ['t/a', 't/c']",
    "any(v == 3 for v in [r.x, r.k, r.n])",
    "r.n == 'three'",
    "Type.record.k == 3",
    "len(fields('string')) == 1",
    # what fields() answers belongs to the record being judged, not to an earlier one
    "any(f.name == 'w' for f in fields('string'))",
    "not any(f.name == 'k' for f in fields('varint'))",
    # true on records that lack the fields they mention (negation, disjunction with a field-free test)
    "not (r.x == 3)",
    "not r.w",
    "name(r) == 'grp' or r.n == 3",
    "not (r.k == 3) and not (r.n == 3)",
    "not has_field(r, 'k')",
    "not ('evil' in Type.string)",
]
_KINDS = None


def kinds():
    """records of different kinds that one selector object meets in one stream: layouts sharing a type name, grouped records of
    different composition under one group name, a holder with a nested record"""
    global _KINDS
    if _KINDS is None:
        from flow.record import GroupedRecord, RecordDescriptor

        D = RecordDescriptor("test/rec", [("varint", "n"), ("string", "s")])
        D2 = RecordDescriptor("test/rec", [("string", "n"), ("varint", "k"), ("string", "w")])
        A = RecordDescriptor("t/a", [("varint", "x")])
        B = RecordDescriptor("t/b", [("string", "u")])
        C = RecordDescriptor("t/c", [("string", "w"), ("varint", "k")])
        H = RecordDescriptor("test/rec", [("record", "inner"), ("varint", "n")])
        _KINDS = [
            D(3, "a"),
            D2("three", 3, "evil"),
            GroupedRecord("grp", [A(3), B("evil")]),
            GroupedRecord("grp", [A(1), C("evil", 3)]),
            GroupedRecord("grp", [C("x", 1)]),
            H(C("evil", 3), 1),
            D(0, "evil"),
        ]
    return _KINDS


def _outcome(sel, rec):
    try:
        return bool(sel.match(rec))
    except Exception as e:  # noqa: BLE001 - an expression undefined on this record: the outcome is the exception class
        return type(e).__name__


def _stream_of(records):
    """bytes of a record stream holding the records"""
    import io

    from flow.record.stream import RecordStreamWriter

    class Keep(io.BytesIO):
        def close(self):
            pass

    buf = Keep()
    w = RecordStreamWriter(buf)
    for r in records:
        w.write(r)
    w.flush()
    w.fp = None
    return buf.getvalue()


def _read_positions(data, selector):
    import io

    from flow.record.stream import RecordStreamReader

    out = []
    try:
        for r in RecordStreamReader(io.BytesIO(data), selector=selector):
            out.append(repr(r))
    except Exception as e:  # noqa: BLE001
        return f"{type(e).__name__}: {e}"
    return out


_FRESH = {}


def _fresh_table(engine):
    """{(program, kind): verdict of a fresh selector in a FRESH PROCESS that has seen no other record} - process-wide state (a module
    level cache keyed by a type name) would otherwise be shared by the history under test and by its reference."""
    import subprocess
    import sys

    if engine in _FRESH:
        return _FRESH[engine]
    table = {}
    code = ("import json, sys\nfrom harness import C10\nfrom flow.record.selector import CompiledSelector, Selector\n"
            "j = int(sys.argv[2]); cls = Selector if sys.argv[1] == 'i' else CompiledSelector; K = C10.kinds()\n"
            "print(json.dumps([C10._outcome(cls(e), K[j]) for e in C10.KIND_EXPRS]))")
    for j in range(len(kinds())):
        out = subprocess.run([sys.executable, "-c", code, engine, str(j)], capture_output=True, text=True, timeout=120, env=dict(os.environ, PYTHONPATH=":".join(p for p in sys.path if p)))
        if out.returncode != 0:
            raise RuntimeError("fresh-process reference failed: " + out.stderr[-300:])
        for e, v in zip(KIND_EXPRS, json.loads(out.stdout.strip().splitlines()[-1])):
            table[(e, j)] = v
    _FRESH[engine] = table
    return table


def kind_history(engine: str, first: int, k: int):
    """One selector object matches a symbolic history of k records of different kinds: every verdict equals the verdict of a fresh
    selector on that record alone, and no record changes (path-exhaustive over histories; the concrete part runs untraced)."""
    from crosshair.tracers import NoTracing
    from flow.record.selector import CompiledSelector, Selector

    cls = Selector if engine == "i" else CompiledSelector
    K = kinds()
    nk = len(K)
    fresh = _fresh_table(engine)

    def check(c1: int, c2: int, c3: int) -> bool:
        """
        post: _
        """
        codes = [c1, c2, c3][: k - 1]
        if not all(0 <= c < nk for c in codes):
            return True
        hist = [first]
        for c in codes:
            for j in range(nk):
                if c == j:
                    hist.append(j)
        with NoTracing():
            packs = [repr(r._pack()) for r in K]
            data = _stream_of([K[j] for j in hist])
            for e in KIND_EXPRS:
                sel = cls(e)
                for j in hist:
                    if _outcome(sel, K[j]) != fresh[(e, j)]:
                        return False
                # the real binary reader with this selector (text and object form) yields exactly the records a fresh selector keeps
                want = [repr(K[j]) for j in hist if fresh[(e, j)] is True]
                if any(isinstance(fresh[(e, j)], str) for j in hist):
                    continue  # the program is undefined on one of the records: reading aborts there, which C08 covers
                for given in (cls(e), e if engine == "i" else cls(e)):
                    got = _read_positions(data, given)
                    if got != want:
                        return False
            return packs == [repr(r._pack()) for r in K]

    return check


def obligations(tier, seed):
    n = 4 if tier == "quick" else 6
    obs = []
    for reader in ("stream", "json", "jsonplain", "avro", "csv", "sqlite"):
        obs.append(ob(f"O1-loop/{reader}/N{n}", "xh", "loop", {"reader": reader, "n": n}, timeout=30 if tier == "quick" else 120, bounds=f"N={n} records, all 2^{n} outcome vectors"))
    pn, pm = (3, 1) if tier == "quick" else (4, 2)
    for batch in range(1, pn + 2):
        obs.append(ob(f"O1-loop/sqlite-paged/batch{batch}", "xh", "sqlite_paged", {"n": pn, "m": pm, "batch": batch}, timeout=90 if tier == "quick" else 400, group="O1-loop",
                      bounds=f"{pn} + {pm} rows in two tables, reader batch size {batch}, all 2^{pn + pm} outcome vectors, real read_table over a connection model"))
    for reader in ("stream", "sqlite"):
        obs.append(ob(f"O1-noselector/{reader}", "xh", "noselector", {"reader": reader}, timeout=20, bounds="k <= 6 records"))
    obs.append(ob("O1-make_selector", "xh", "mksel", {}, timeout=20, bounds="kinds of selector argument x force_compiled"))
    k = 3 if tier == "quick" else 4
    for eng in "ic":
        for first in range(len(kinds())):
            obs.append(ob(f"O2-kinds/{eng}/K{k}/first{first}", "xh", "kind_history", {"engine": eng, "first": first, "k": k}, timeout=60 if tier == "quick" else 240, group="O2-kinds",
                          bounds=f"histories of {k} records over {len(kinds())} kinds x {len(KIND_EXPRS)} programs, one selector object per history"))
    exprs = PURITY_EXPRS if tier == "thorough" else PURITY_EXPRS[:13]
    for i, e in enumerate(exprs):
        for eng in "ic":
            obs.append(ob(f"O2-purity/{eng}/{i}", "xh", "purity", {"expr": e, "engine": eng}, timeout=25 if tier == "quick" else 90, group="O2-purity", bounds="two records, ints unbounded, strings <= 2 chars"))
    return obs


# ---------------------------------------------------------------------------------- replay (public API, real files)
def _real_roundtrip(fmt, outs):
    """Write N records with the real writer, read them back with a real selector that has the given outcome
    vector, and compare with reading everything and filtering afterwards."""
    from flow.record import RecordDescriptor, RecordReader, RecordWriter
    from flow.record.selector import Selector

    n = len(outs)
    D = RecordDescriptor("test/rec", [("varint", "n")])
    keep = [i for i, b in enumerate(outs) if b]
    with tempdir() as d:
        ext = {"stream": "records", "json": "json", "jsonplain": "json", "avro": "avro", "csv": "csv", "sqlite": "sqlite"}[fmt]
        path = os.path.join(d, "x." + ext)
        url = path if fmt not in ("sqlite", "jsonplain") else {"sqlite": "sqlite://" + path, "jsonplain": "jsonfile://" + path + "?descriptors=0"}[fmt]
        w = RecordWriter(url)
        for i in range(n):
            w.write(D(i))
        w.flush()
        w.close()
        rurl = url if fmt != "jsonplain" else "jsonfile://" + path
        text = "r.n in [%s]" % ", ".join((repr(str(i)) if fmt == "csv" else str(i)) for i in keep) if keep else "r.n in []"
        with RecordReader(rurl, selector=text) as rd:
            got = [int(r.n) for r in rd]
        with RecordReader(rurl) as rd:
            allrecs = list(rd)
        post = [int(r.n) for r in allrecs if Selector(text).match(r)]
        ok = got == post == keep and [int(r.n) for r in allrecs] == list(range(n))
        return ok, {"format": fmt, "selector": text, "with_selector": got, "filtered_afterwards": post, "expected": keep}


def replay(res):
    a = res["args"]
    gid = res["id"]
    if "sqlite-paged" in gid:
        # real sqlite3: a small reader batch size, every outcome vector of 6 rows; with a selector vs. filtering afterwards
        from flow.record import RecordDescriptor, RecordReader, RecordWriter
        from flow.record.selector import Selector

        D = RecordDescriptor("t/a", [("varint", "n")])
        with tempdir() as d:
            path = os.path.join(d, "x.sqlite")
            w = RecordWriter("sqlite://" + path)
            for i in range(6):
                w.write(D(i))
            w.flush()
            w.close()
            for bs in (1, 2, 3, 6, 1000):
                for mask in range(64):
                    keep = [i for i in range(6) if mask >> i & 1]
                    text = "r.n in [%s]" % ", ".join(map(str, keep))
                    with RecordReader(f"sqlite://{path}?batch_size={bs}", selector=text) as rd:
                        got = [int(r.n) for r in rd]
                    if got != keep:
                        return {"reproduced": True, "key": "C10/loop/sqlite-paged", "what": f"sqlite reader with batch_size={bs} and selector {text!r} yields {got}, filtering afterwards keeps {keep}", "input": {"batch_size": bs, "keep": keep}}
        return {"reproduced": False, "what": "sqlite reader equals filtering afterwards for every outcome vector and batch size"}
    if "O1-loop" in gid:
        names = ["b0", "b1", "b2", "b3", "b4", "b5"]
        vals = cex_args(res, names)
        outs = [bool(vals.get(k, False)) for k in names][: a["n"]]
        ok, info = _real_roundtrip(a["reader"], outs)
        if ok:
            # also try the complement and the all-true/all-false vectors before giving up
            for alt in ([not b for b in outs], [True] * len(outs), [False] * len(outs), [i % 2 == 0 for i in range(len(outs))]):
                ok, info = _real_roundtrip(a["reader"], alt)
                if not ok:
                    break
        return {"reproduced": not ok, "key": f"C10/loop/{a['reader']}", "what": f"reading {a['reader']} with a selector differs from filtering afterwards: {info}", "input": info}
    if "O1-noselector" in gid:
        ok, info = _real_roundtrip(a["reader"], [True] * 3)
        return {"reproduced": not ok, "key": f"C10/noselector/{a['reader']}", "what": f"reader without selector does not yield every record: {info}", "input": info}
    if "make_selector" in gid:
        from flow.record.selector import CompiledSelector, Selector, make_selector

        probs = []
        t = "r.n == 1"
        if make_selector(None) is not None or make_selector("") is not None:
            probs.append("empty selector is not None")
        if type(make_selector(t)) is not Selector or type(make_selector(t, True)) is not CompiledSelector:
            probs.append("text selector has wrong engine")
        s = Selector(t)
        if make_selector(s) is not s or type(make_selector(s, True)) is not CompiledSelector or str(make_selector(s, True)) != t:
            probs.append("Selector object not passed through / not compiled")
        c = CompiledSelector(t)
        if make_selector(c) is not c or make_selector(c, True) is not c:
            probs.append("CompiledSelector object not passed through")
        return {"reproduced": bool(probs), "key": "C10/make_selector", "what": "; ".join(probs), "input": {}}
    if "O2-kinds" in gid:
        from flow.record import RecordReader, RecordWriter
        from flow.record.selector import CompiledSelector, Selector

        cls = Selector if a["engine"] == "i" else CompiledSelector
        v = cex_args(res, ["c1", "c2", "c3"])
        K = kinds()
        hist = [a["first"]] + [c for c in [v.get("c1"), v.get("c2"), v.get("c3")][: a["k"] - 1] if isinstance(c, int) and 0 <= c < len(K)]
        # through a real stream file: one reader (one selector object) over the history vs. the verdicts of fresh selectors in fresh
        # processes that have seen no other record
        fresh = _fresh_table(a["engine"])
        with tempdir() as d:
            path = os.path.join(d, "h.records")
            w = RecordWriter(path)
            for j in hist:
                w.write(K[j])
            w.flush()
            w.close()
            for e in KIND_EXPRS:
                if any(isinstance(fresh[(e, j)], str) for j in hist):
                    continue
                try:
                    with RecordReader(path, selector=cls(e)) as rd:
                        got = [repr(r) for r in rd]
                except Exception as ex:  # noqa: BLE001
                    got = type(ex).__name__
                want = [repr(K[j]) for j in hist if fresh[(e, j)] is True]
                if got != want:
                    return {"reproduced": True, "key": f"C10/kinds/{a['engine']}/{e}", "what": f"{cls.__name__}({e!r}) over the history of record kinds {hist}: the reader's selector keeps {got}, filtering afterwards keeps {want}"[:900], "input": {"expr": e, "history": hist}}
        return {"reproduced": False, "what": f"history {hist}: reading with the selector equals filtering afterwards for every program"}
    if "O2-purity" in gid:
        from flow.record import RecordDescriptor
        from flow.record.selector import CompiledSelector, Selector

        names = ["n1", "s1", "m1", "b1", "n2", "s2", "m2", "b2"]
        v = cex_args(res, names)
        if len(v) != len(names):
            return {"reproduced": False, "what": "no concrete counterexample values"}
        D = RecordDescriptor("test/rec", [("varint", "n"), ("string", "s"), ("varint", "m"), ("string", "t"), ("boolean", "b")])
        cls = Selector if a["engine"] == "i" else CompiledSelector
        r1 = D(v["n1"], v["s1"], v["m1"], "b", v["b1"])
        r2 = D(v["n2"], v["s2"], v["m2"], "a", v["b2"])
        before = (repr(r1), repr(r2))
        sel = cls(a["expr"])
        outs = []
        errs = []
        for r in (r1, r2, r2, r1):
            try:
                outs.append(bool(sel.match(r)))
            except Exception as e:  # noqa: BLE001
                outs.append(type(e).__name__)
        try:
            fresh = bool(cls(a["expr"]).match(r2))
        except Exception as e:  # noqa: BLE001
            fresh = type(e).__name__
        bad = outs[1] != fresh or outs[1] != outs[2] or outs[0] != outs[3] or (repr(r1), repr(r2)) != before
        return {
            "reproduced": bool(bad),
            "key": f"C10/purity/{a['engine']}/{a['expr']}",
            "what": f"match() of {a['expr']!r} ({a['engine']}) is not pure/history independent: sequence r1,r2,r2,r1 -> {outs}, fresh selector on r2 -> {fresh}",
            "input": {"expr": a["expr"], "values": v},
        }
    return {"reproduced": False, "what": "no replay for this obligation"}
