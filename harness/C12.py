"""C12 - record equality and hashing obey the value-object contract.

Carrier fields ('record'-typed, pass-through) keep the compared values symbolic through the real Record.__eq__, _pack,
__hash__, GroupedRecord._pack and the ignored-fields configuration."""
import datetime as _dt
from typing import Optional

from harness.common import cex_args, mk

PROPERTY = "C12"
FUNCTIONS = [
    "flow.record.base:Record.__eq__",
    "flow.record.base:Record.__hash__",
    "flow.record.base:Record._pack",
    "flow.record.base:_freeze",
    "flow.record.base:GroupedRecord._pack",
    "flow.record.base:set_ignored_fields_for_comparison",
    "flow.record.base:ignore_fields_for_comparison",
]
BOUNDS = {
    "plain": "two records with two carrier fields and _source: all ints / None / strings <= 2 chars, every ignored subset of {x, _source}, same or different descriptor",
    "shapes": "nested record, list of <= 2 carriers, grouped records with 0..2 members each",
    "hash after assignment": "plain / grouped (member handed in, member through .records) / nested record: hash, assign, compare with a rebuilt twin",
    "scopes": "outer configuration = every subset of 3 names, inner = every subset, body raising or not, one level of nesting",
    "types": "26 field types / values with representative values (incl. NaN: reflexivity and hash stability) (contents beyond the table: outside)",
}
STUBS = ["carrier values are injected through the documented pass-through type 'record'"]
OUTSIDE = ["collisions of Python's hash", "NaN fields (a rebuilt copy is unequal by Python's ==, reflexivity holds through identity)"]
ASSUMPTIONS = ["equal field values = Python's == on the packed values"]

ob = mk("harness.C12", PROPERTY)
GEN = _dt.datetime(2020, 1, 1, tzinfo=_dt.timezone.utc)


def _descs():
    from flow.record import RecordDescriptor

    P2 = RecordDescriptor("t/p", [("record", "x"), ("record", "y")])
    Q2 = RecordDescriptor("t/q", [("record", "x"), ("record", "y")])
    return P2, Q2


def plain(with_hash: bool = False):
    import flow.record.base as B

    P2, Q2 = _descs()

    def mkrec(D, x, y, src):
        r = D(x, y, _generated=GEN)
        object.__setattr__(r, "_source", src)
        return r

    def check(x1: int, y1: Optional[int], s1: str, x2: int, y2: Optional[int], s2: str, ign_x: bool, ign_src: bool, same_desc: bool) -> bool:
        """
        post: _
        """
        if len(s1) > 2 or len(s2) > 2:
            return True
        ign = set()
        if ign_x:
            ign.add("x")
        if ign_src:
            ign.add("_source")
        a = mkrec(P2, x1, y1, s1)
        b = mkrec(P2 if same_desc else Q2, x2, y2, s2)
        with B.ignore_fields_for_comparison(ign):
            got = a == b
            got_rev = b == a
            refl = a == a
            ne = a != b
            other = (a == 5, a == None, a != "x")  # noqa: E711
            if with_hash:
                # hashing realises the values (C-level hash): explored for counterexamples only
                if got and hash(a) != hash(b):
                    return False
        exp = same_desc and (ign_x or x1 == x2) and (y1 == y2) and (ign_src or s1 == s2)
        return got == exp and got_rev == exp and refl and ne == (not exp) and other == (False, False, True) and B.IGNORE_FIELDS_FOR_COMPARISON == set()

    return check


def shapes(shape: str, with_hash: bool = False):
    from flow.record import GroupedRecord, RecordDescriptor

    IN = RecordDescriptor("t/in", [("record", "v")])
    H = RecordDescriptor("t/h", [("record", "inner"), ("record[]", "many")])
    A = RecordDescriptor("t/a", [("record", "v")])
    Bd = RecordDescriptor("t/b", [("record", "w")])

    import flow.record.base as B

    def check(v1: int, v2: int, w1: int, w2: int, n1: int, n2: int, samename: bool, ign_v: bool, ign_w: bool) -> bool:
        """
        post: _
        """
        if not (0 <= n1 <= 2 and 0 <= n2 <= 2):
            return True
        if shape == "grouped":
            # the ignored-fields configuration reaches the members of a grouped record
            ign = set()
            if ign_v:
                ign.add("v")
            if ign_w:
                ign.add("w")
            ma = [] if n1 == 0 else ([A(v1, _generated=GEN)] if n1 == 1 else [A(v1, _generated=GEN), Bd(w1, _generated=GEN)])
            mb = [] if n2 == 0 else ([A(v2, _generated=GEN)] if n2 == 1 else [A(v2, _generated=GEN), Bd(w2, _generated=GEN)])
            a = GroupedRecord("g/one", ma)
            b = GroupedRecord("g/one" if samename else "g/two", mb)
            exp = samename and n1 == n2 and (n1 == 0 or ((ign_v or v1 == v2) and (n1 == 1 or ign_w or w1 == w2)))
            with B.ignore_fields_for_comparison(ign):
                got = a == b
                rev = b == a
                refl = a == a
                ne = a != b
                if with_hash and got and hash(a) != hash(b):
                    return False
            return got == exp and rev == exp and refl and ne == (not exp) and B.IGNORE_FIELDS_FOR_COMPARISON == set()
        if shape == "nested":
            # the configuration reaches nested records too (they are compared and hashed as records)
            a = H(IN(v1, _generated=GEN), [IN(w1, _generated=GEN)], _generated=GEN)
            b = H(IN(v2, _generated=GEN), [IN(w2, _generated=GEN)], _generated=GEN)
            exp = ign_v or (v1 == v2 and w1 == w2)
            with B.ignore_fields_for_comparison({"v"} if ign_v else set()):
                got = a == b
                rev = b == a
                refl = a == a
                ne = a != b
                if with_hash and got and hash(a) != hash(b):
                    return False
            return got == exp and rev == exp and refl and ne == (not exp) and B.IGNORE_FIELDS_FOR_COMPARISON == set()
        elif shape == "list":
            la = [] if n1 == 0 else ([v1] if n1 == 1 else [v1, w1])
            lb = [] if n2 == 0 else ([v2] if n2 == 1 else [v2, w2])
            a = H(None, la, _generated=GEN)
            b = H(None, lb, _generated=GEN)
            exp = n1 == n2 and (n1 == 0 or (v1 == v2 and (n1 == 1 or w1 == w2)))
        else:
            ma = [] if n1 == 0 else ([A(v1, _generated=GEN)] if n1 == 1 else [A(v1, _generated=GEN), Bd(w1, _generated=GEN)])
            mb = [] if n2 == 0 else ([A(v2, _generated=GEN)] if n2 == 1 else [A(v2, _generated=GEN), Bd(w2, _generated=GEN)])
            a = GroupedRecord("g/one", ma)
            b = GroupedRecord("g/one" if samename else "g/two", mb)
            exp = samename and n1 == n2 and (n1 == 0 or (v1 == v2 and (n1 == 1 or w1 == w2)))
        got = a == b
        rev = b == a
        if with_hash and got and hash(a) != hash(b):
            return False
        return got == exp and rev == exp and (a == a) and (a != b) == (not exp)

    return check


def mutation_problem(kind, ign_generated):
    """hash follows the CURRENT values: hash a record, assign a field (directly / on a member handed to the constructor / on a member
    reached through .records / on a nested record), then compare with an independently built record holding the new values."""
    import flow.record.base as B
    from flow.record import GroupedRecord, RecordDescriptor

    P = RecordDescriptor("t/p", [("varint", "x"), ("varint", "y"), ("string", "s")])
    A = RecordDescriptor("t/a", [("varint", "v")])
    Bd = RecordDescriptor("t/b", [("varint", "w")])
    IN = RecordDescriptor("t/in", [("varint", "v")])
    H = RecordDescriptor("t/h", [("record", "inner"), ("record[]", "many")])
    other = _dt.datetime(2021, 2, 3, tzinfo=_dt.timezone.utc)
    g2 = GEN if not ign_generated else other  # with _generated ignored the twin may differ in it
    with B.ignore_fields_for_comparison({"_generated"} if ign_generated else set()):
        try:
            if kind == 0:
                r = P(1, None, "s", _generated=GEN)
                hash(r)
                r.x = 2
                twin, what = P(2, None, "s", _generated=g2), "a plain record"
            elif kind == 1:
                ma, mb = A(1, _generated=GEN), Bd(2, _generated=GEN)
                r = GroupedRecord("g", [ma, mb])
                hash(r)
                mb.w = 3
                twin, what = GroupedRecord("g", [A(1, _generated=g2), Bd(3, _generated=g2)]), "a grouped record whose member (the object handed to the constructor) was assigned a new value"
            elif kind == 2:
                r = GroupedRecord("g", [A(9, _generated=GEN), Bd(2, _generated=GEN)])
                hash(r)
                r.records[0].v = 1
                twin, what = GroupedRecord("g", [A(1, _generated=g2), Bd(2, _generated=g2)]), "a grouped record whose member (reached through .records) was assigned a new value"
            else:
                inner = IN(5, _generated=GEN)
                r = H(inner, [IN(2, _generated=GEN)], _generated=GEN)
                hash(r)
                inner.v = 1
                twin, what = H(IN(1, _generated=g2), [IN(2, _generated=g2)], _generated=g2), "a record whose nested record was assigned a new value"
            if not (r == twin and twin == r):
                return f"{what} after hashing: not equal to an independently built record with the same values (ignore _generated: {ign_generated})"
            if hash(r) != hash(twin) or r not in {twin}:
                return f"{what} after hashing: equal to an independently built record but hashes differently / is not found in a set (ignore _generated: {ign_generated})"
        except Exception as e:  # noqa: BLE001
            return f"mutation kind {kind}: raised {type(e).__name__}: {e}"
    return None


def eviction():
    """Concrete: equality and hashing survive the eviction of the generated record class (the class cache holds 4096 entries): a record,
    more than 4096 other record types, then the same descriptor and record rebuilt and read back from a stream."""
    import io

    from flow.record import RecordDescriptor
    from flow.record.stream import RecordStreamReader, RecordStreamWriter

    fields = [("varint", "x"), ("string", "s")]
    a = RecordDescriptor("t/evict", fields)(1, "one", _generated=GEN)
    buf = io.BytesIO()
    w = RecordStreamWriter(buf)
    w.write(a)
    w.flush()
    data = buf.getvalue()
    w.fp = None
    for i in range(4200):
        RecordDescriptor(f"t/filler{i}", [("varint", f"f{i}")])
    b = RecordDescriptor("t/evict", fields)(1, "one", _generated=GEN)
    c = list(RecordStreamReader(io.BytesIO(data)))[0]
    probs = []
    for what, other in (("rebuilt after 4200 other record types were created", b), ("read back from a stream after 4200 other record types were created", c)):
        if not (a == other and other == a and not (a != other)):
            probs.append(f"a record and the same record {what} are not equal")
        elif hash(a) != hash(other) or len({a, other}) != 1:
            probs.append(f"a record and the same record {what} are equal but hash differently")
    return {"ok": not probs, "detail": "; ".join(probs) or "equality and hash survive class-cache eviction", "cex": {"kw": {"problems": probs}}}


def mutation():
    """path-exhaustive over (kind of record, which part is assigned, _generated ignored or not); concrete part untraced (hash() is C)"""
    from crosshair.tracers import NoTracing

    def check(kind: int, ign: bool) -> bool:
        """
        post: _
        """
        if not (0 <= kind <= 3):
            return True
        k = 0
        for j in range(4):
            if kind == j:
                k = j
        g = True if ign else False
        with NoTracing():
            return mutation_problem(k, g) is None

    return check


NAMES = ["x", "_source", "_generated"]


def scopes():
    import flow.record.base as B

    def subset(bits):
        return {n for n, b in zip(NAMES, bits) if b}

    class Boom(Exception):
        pass

    def check(o0: bool, o1: bool, o2: bool, i0: bool, i1: bool, i2: bool, j0: bool, j1: bool, raises: bool, nested: bool, via_set: bool) -> bool:
        """
        post: _
        """
        outer = subset((o0, o1, o2))
        inner = subset((i0, i1, i2))
        inner2 = subset((j0, j1, False))
        saved = B.IGNORE_FIELDS_FOR_COMPARISON
        ok = True
        try:
            if via_set:
                B.set_ignored_fields_for_comparison(outer)
                ctx = None
            else:
                ctx = B.ignore_fields_for_comparison(outer)
                ctx.__enter__()
            try:
                try:
                    with B.ignore_fields_for_comparison(inner):
                        ok = ok and set(B.IGNORE_FIELDS_FOR_COMPARISON) == inner
                        if nested:
                            with B.ignore_fields_for_comparison(inner2):
                                ok = ok and set(B.IGNORE_FIELDS_FOR_COMPARISON) == inner2
                            ok = ok and set(B.IGNORE_FIELDS_FOR_COMPARISON) == inner
                        if raises:
                            raise Boom()
                except Boom:
                    pass
                ok = ok and set(B.IGNORE_FIELDS_FOR_COMPARISON) == outer
            finally:
                if ctx is not None:
                    ctx.__exit__(None, None, None)
            if ctx is not None:
                ok = ok and set(B.IGNORE_FIELDS_FOR_COMPARISON) == set(saved)
        finally:
            B.set_ignored_fields_for_comparison(set(saved))
        return ok

    return check


TYPE_TABLE = [
    ("string", "abc", "abd"), ("varint", 2**70, 2**70 + 1), ("bytes", b"\x00\x01", b"\x00\x02"), ("float", 1.5, 2.5), ("boolean", True, False), ("uint16", 1, 2), ("uint32", 1, 2),
    ("datetime", _dt.datetime(2020, 1, 1, tzinfo=_dt.timezone.utc), _dt.datetime(2020, 1, 2, tzinfo=_dt.timezone.utc)), ("path", "/a/b", "/a/c"), ("command", "ls -l /tmp", "ls -a /tmp"),
    ("net.ipaddress", "1.2.3.4", "::1"), ("net.ipnetwork", "10.0.0.0/8", "10.0.0.0/9"), ("digest", ("d41d8cd98f00b204e9800998ecf8427e", None, None), (None, None, None)), ("uri", "http://a/b", "http://a/c"),
    ("string[]", ["a", "b"], ["b", "a"]), ("varint[]", [1, 2**65], [1]), ("path[]", ["/a"], ["/b"]), ("net.ipaddress[]", ["1.1.1.1"], ["1.1.1.2"]), ("stringlist", ["x"], ["y"]),
    ("float", float("nan"), 1.0), ("float[]", [1.0, float("nan")], [1.0]),
    ("dictlist", [{"a": 1, "b": {"c": [1, 2]}}], [{"a": 1, "b": {"c": [2, 1]}}]), ("filesize", 10, 11), ("unix_file_mode", 0o644, 0o600), ("command[]", ["ls -l", "cat x"], ["ls -l"]), ("dynamic", "text", 5),
]


def type_case(i, variation):
    """-> None or a description of the violated clause (concrete: the values are C-level objects)."""
    from flow.record import GroupedRecord, RecordDescriptor

    t, v1, v2 = TYPE_TABLE[i]
    D = RecordDescriptor("t/typed", [(t, "f"), ("string", "tag")])
    a = D(v1, "k", _generated=GEN)
    if t == "dictlist":
        copy_val = [{"b": {"c": [1, 2]}, "a": 1}]  # same dict, other insertion order
    else:
        copy_val = v1
    b = D(copy_val, "k", _generated=GEN)
    c = D(v2, "k", _generated=GEN)
    try:
        # reflexivity and hash stability hold for EVERY record (NaN included: there a rebuilt copy is legitimately unequal, the
        # record itself is not): plain, as a member of a group and nested
        ga = GroupedRecord("g", [a])
        ha = RecordDescriptor("t/holder", [("record", "r"), ("record[]", "rs")])(a, [a], _generated=GEN)
        for what, x in (("record", a), ("grouped record", ga), ("record holding it", ha)):
            if not (x == x) or (x != x):
                return f"{t} = {v1!r}: a {what} is not equal to itself"
            if hash(x) != hash(x) or x not in {x}:
                return f"{t} = {v1!r}: the hash of a {what} changes from call to call / it is not found in a set holding it"
        if any(isinstance(x, float) and x != x for x in (v1 if isinstance(v1, list) else [v1])):
            return None  # NaN: the remaining clauses compare rebuilt copies, which Python's == makes unequal by definition
        if variation == 0:
            if not (a == b and b == a and not (a != b)):
                return f"{t}: a record and its independently rebuilt copy are not equal"
            if hash(a) != hash(b):
                return f"{t}: equal records have different hashes"
        elif variation == 1:
            if a == c or c == a or not (a != c):
                return f"{t}: records differing in one field ({v1!r} / {v2!r}) compare equal"
            hash(c)
        elif variation == 2:
            g1 = GroupedRecord("g", [a, D(v2, "m", _generated=GEN)])
            g2 = GroupedRecord("g", [b, D(v2, "m", _generated=GEN)])
            if not (g1 == g2) or hash(g1) != hash(g2):
                return f"{t}: grouped copies unequal or hash differently"
            if g1 == GroupedRecord("g", [a]) or GroupedRecord("g", [a]) == g1 or GroupedRecord("g", []) == g1:
                return f"{t}: a group equals a group with fewer members"
        else:
            H = RecordDescriptor("t/holder", [("record", "r"), ("record[]", "rs")])
            h1, h2, h3 = H(a, [a, c], _generated=GEN), H(b, [b, c], _generated=GEN), H(c, [a, c], _generated=GEN)
            if not (h1 == h2) or hash(h1) != hash(h2) or h1 == h3:
                return f"{t}: nested copies unequal / hash differently, or nested variation equal"
    except Exception as e:  # noqa: BLE001
        return f"{t}: {type(e).__name__}: {e}"
    return None


def types():
    from crosshair.tracers import NoTracing

    n = len(TYPE_TABLE)

    def check(i: int, variation: int) -> bool:
        """
        post: _
        """
        if not (0 <= i < n and 0 <= variation < 4):
            return True
        a = v = 0
        for j in range(n):
            if i == j:
                a = j
        for j in range(4):
            if variation == j:
                v = j
        with NoTracing():
            return type_case(a, v) is None

    return check


def obligations(tier, seed):
    to = 60 if tier == "quick" else 240
    obs = [ob("O1-plain", "xh", "plain", {}, timeout=to * 2, bounds="all carrier values, every ignored subset, same/different descriptor")]
    obs.append(ob("O1-plain-hash", "xh", "plain", {"with_hash": True}, timeout=20, bounds="hash() realises the values: hunt only", hunt_only=True))
    for s in ("nested", "list", "grouped"):
        obs.append(ob(f"O2-shape/{s}", "xh", "shapes", {"shape": s}, timeout=to * 2, group="O2-shape"))
        obs.append(ob(f"O2-shape-hash/{s}", "xh", "shapes", {"shape": s, "with_hash": True}, timeout=20, group="O2-shape", bounds="hunt only", hunt_only=True))
    obs.append(ob("S1-class-cache-eviction", "side", "eviction", {}, timeout=120, group="S1-eviction"))
    obs.append(ob("O5-hash-after-assignment", "xh", "mutation", {}, timeout=to, bounds="4 kinds of record / assigned part x _generated ignored or not (path-exhaustive)"))
    obs.append(ob("O3-scopes", "xh", "scopes", {}, timeout=to * 3, bounds="outer 2^3 x inner 2^3 x nested inner 2^2 x raises x nested x set/scope"))
    obs.append(ob("O4-types", "xh", "types", {}, timeout=to, bounds=f"{len(TYPE_TABLE)} field types x 4 variations (path-exhaustive over the table)"))
    return obs


# ------------------------------------------------------------------------------------------------ replay
def replay(res):
    import flow.record.base as B
    from flow.record import GroupedRecord, RecordDescriptor

    gid = res["id"]
    if "S1-class-cache-eviction" in gid:
        out = eviction()
        return {"reproduced": not out["ok"], "key": "C12/class-cache-eviction", "what": out["detail"], "input": {}}
    if "O4-types" in gid:
        for i in range(len(TYPE_TABLE)):
            for v in range(4):
                p = type_case(i, v)
                if p:
                    key = "C12/hash/dict-order" if "dictlist" in p and "hash" in p else f"C12/types/{TYPE_TABLE[i][0]}"
                    return {"reproduced": True, "key": key, "what": p, "input": {"type": TYPE_TABLE[i][0], "variation": v}}
        return {"reproduced": False, "what": "type table behaves"}
    if "O3-scopes" in gid:
        probs = []
        for outer in (set(), {"x"}, {"_generated", "movie"}):
            for raises in (False, True):
                B.set_ignored_fields_for_comparison(outer)
                try:
                    with B.ignore_fields_for_comparison({"y"}):
                        with B.ignore_fields_for_comparison({"z"}):
                            pass
                        if set(B.IGNORE_FIELDS_FOR_COMPARISON) != {"y"}:
                            probs.append(f"after a nested scope the configuration is {sorted(B.IGNORE_FIELDS_FOR_COMPARISON)}, expected ['y']")
                        if raises:
                            raise KeyError("boom")
                except KeyError:
                    pass
                if set(B.IGNORE_FIELDS_FOR_COMPARISON) != outer:
                    probs.append(f"after the scope (raises={raises}) the ignored-fields configuration is {sorted(B.IGNORE_FIELDS_FOR_COMPARISON)}, expected {sorted(outer)}")
        B.set_ignored_fields_for_comparison(set())
        return {"reproduced": bool(probs), "key": "C12/scope-restore", "what": "; ".join(probs[:2]), "input": {}}
    # plain / shapes: rebuild through the public constructors with concrete values
    P = RecordDescriptor("t/p", [("varint", "x"), ("varint", "y"), ("string", "s")])
    Q = RecordDescriptor("t/q", [("varint", "x"), ("varint", "y"), ("string", "s")])
    A = RecordDescriptor("t/a", [("varint", "v")])
    Bd = RecordDescriptor("t/b", [("varint", "w")])
    probs = []

    def expect(cond, what):
        try:
            if not cond():
                probs.append(what)
        except Exception as e:  # noqa: BLE001
            probs.append(f"{what}: raised {type(e).__name__}: {e}")

    a, b, c, d = P(1, None, "s", _generated=GEN), P(1, None, "s", _generated=GEN), P(2, None, "s", _generated=GEN), Q(1, None, "s", _generated=GEN)
    expect(lambda: a == b and b == a and hash(a) == hash(b) and not a != b, "equal plain records are not equal / hash differently")
    expect(lambda: a != c and not a == c and not c == a, "plain records with one different value compare equal")
    expect(lambda: a != d and not d == a, "records of different descriptors compare equal")
    expect(lambda: a == a and not (a == 5) and not (a == None), "reflexivity / comparison with non-records")  # noqa: E711
    with B.ignore_fields_for_comparison({"x"}):
        expect(lambda: a == c and hash(a) == hash(c), "ignored field still takes part in == / hash")
    expect(lambda: B.IGNORE_FIELDS_FOR_COMPARISON == set(), "ignored-fields configuration not restored")
    g0, g1, g2, g2b, g2c = GroupedRecord("g", []), GroupedRecord("g", [A(1, _generated=GEN)]), GroupedRecord("g", [A(1, _generated=GEN), Bd(2, _generated=GEN)]), GroupedRecord("g", [A(1, _generated=GEN), Bd(2, _generated=GEN)]), GroupedRecord("h", [A(1, _generated=GEN), Bd(2, _generated=GEN)])
    expect(lambda: g2 == g2b and hash(g2) == hash(g2b) and g2 == g2, "equal grouped records are not equal / hash differently")
    expect(lambda: not (g1 == g2) and not (g2 == g1) and not (g0 == g2) and not (g2 == g0) and g1 != g2, "grouped records with a different number of members compare equal")
    expect(lambda: not (g2 == g2c), "grouped records with different group names compare equal")
    expect(lambda: isinstance(hash(g0), int) and isinstance(hash(g1), int), "grouped record is not hashable")
    # the ignored-fields configuration applies to the members of a grouped record as well
    g3, g4 = GroupedRecord("g", [A(1, _generated=GEN), Bd(3, _generated=GEN)]), GroupedRecord("g", [A(5, _generated=GEN), Bd(2, _generated=GEN)])
    other_gen = _dt.datetime(2021, 2, 3, tzinfo=_dt.timezone.utc)
    g5 = GroupedRecord("g", [A(1, _generated=other_gen), Bd(2, _generated=other_gen)])
    with B.ignore_fields_for_comparison({"w"}):
        expect(lambda: g2 == g3 and g3 == g2 and hash(g2) == hash(g3) and not g2 != g3, "grouped records that differ only in an ignored field of a member are unequal / hash differently")
        expect(lambda: not (g2 == g4), "grouped records that differ in a non-ignored field compare equal")
    with B.ignore_fields_for_comparison({"v", "w"}):
        expect(lambda: g2 == g4 and hash(g2) == hash(g4), "grouped records that differ only in ignored fields are unequal / hash differently")
    with B.ignore_fields_for_comparison({"_generated"}):
        expect(lambda: g2 == g5 and hash(g2) == hash(g5) and len({g2, g5}) == 1, "a grouped record and its rebuilt copy differ under ignore {_generated}")
    expect(lambda: not (g2 == g3) and not (g2 == g5), "without the configuration the differing grouped records compare equal")
    for kind in range(4):
        for ig in (False, True):
            p_ = mutation_problem(kind, ig)
            if p_:
                probs.append(p_)
    # ... and to nested records (record and record[] fields)
    IN = RecordDescriptor("t/in", [("varint", "v")])
    H = RecordDescriptor("t/h", [("record", "inner"), ("record[]", "many")])
    h1 = H(IN(1, _generated=GEN), [IN(2, _generated=GEN)], _generated=GEN)
    h2 = H(IN(7, _generated=GEN), [IN(8, _generated=GEN)], _generated=GEN)
    h3 = H(IN(1, _generated=other_gen), [IN(2, _generated=other_gen)], _generated=GEN)
    h1b = H(IN(1, _generated=GEN), [IN(2, _generated=GEN)], _generated=GEN)
    expect(lambda: h1 == h1b and hash(h1) == hash(h1b), "a record with nested records and its rebuilt copy are unequal / hash differently")
    with B.ignore_fields_for_comparison({"v"}):
        expect(lambda: h1 == h2 and hash(h1) == hash(h2) and len({h1, h2}) == 1, "records whose nested records differ only in an ignored field are unequal / hash differently")
    with B.ignore_fields_for_comparison({"_generated"}):
        expect(lambda: h1 == h3 and hash(h1) == hash(h3) and len({h1, h3}) == 1, "records whose nested records differ only in the ignored _generated are unequal / hash differently")
    expect(lambda: not (h1 == h2) and not (h1 == h3), "without the configuration records with different nested records compare equal")
    return {"reproduced": bool(probs), "key": f"C12/{gid.split('/')[1]}", "what": "; ".join(probs[:2]), "input": {}}
