"""C15 - record composition follows the documented precedence rules.

Shapes (which descriptors, in which order) are enumerated by the driver - one obligation per shape, descriptors built outside
the symbolic run; inside an obligation the carrier values and the replace / rename flags are symbolic. Reference: a small
dictionary model written from the property text."""
import datetime as _dt
import itertools
import random

from harness.common import cex_args, mk

PROPERTY = "C15"
FUNCTIONS = [
    "flow.record.base:merge_record_descriptors",
    "flow.record.base:extend_record",
    "flow.record.base:iter_timestamped_records",
    "flow.record.base:GroupedRecord.__init__",
    "flow.record.base:GroupedRecord.__getattr__",
    "flow.record.base:GroupedRecord._replace",
    "flow.record.base:Record._replace",
    "flow.record.base:RecordDescriptor.init_from_dict",
    "flow.record.stream:RecordFieldRewriter.rewrite",
    "flow.record.stream:RecordFieldRewriter.record_descriptor_for_fields",
]
BOUNDS = {
    "extend/merge": "2 records (all 25 ordered pairs of 5 descriptors) and 3 records (quick: 40 seeded + all A,B,A patterns; thorough: all 125) over field names {a, b, c} with conflicting types",
    "timestamps": "records with up to 3 fields from a pool of 6 (datetime fields named ts / other / ctime, text fields named ts_description / ts, a carrier) in every order",
    "grouped": "2 and 3 members from the same pool of 5 descriptors",
    "projection": "every subset of 3 fields as -F list (two orders, with an unknown name) x every exclusion subset",
    "values": "all ints for carrier fields; typed fields hold distinct concrete values",
}
STUBS = ["carrier fields ('record'-typed pass-through) keep values symbolic"]
OUTSIDE = ["records with more than 3 fields per descriptor", "datetime values (concrete instants, C13)"]
ASSUMPTIONS = ["reference model harness/C15.py:ref_merge written from the property text"]

ob = mk("harness.C15", PROPERTY)
UTC = _dt.timezone.utc
GEN = _dt.datetime(2020, 1, 1, tzinfo=UTC)

POOL = [
    [("record", "a"), ("record", "b")],
    [("string", "b"), ("record", "c")],
    [("record", "b"), ("string", "a")],
    [("bytes", "a")],
    [("record", "c"), ("record", "a"), ("string", "b")],
]


def _desc(i, name=None):
    from flow.record import RecordDescriptor

    return RecordDescriptor(name or f"t/p{i}", POOL[i])


def _values(i, slot, carriers):
    """value list for record number `slot` of descriptor POOL[i]"""
    out = []
    for j, (t, n) in enumerate(POOL[i]):
        if t == "record":
            out.append(carriers[slot * 3 + j])
        elif t == "string":
            out.append(f"s{slot}{n}")
        else:
            out.append(f"y{slot}{n}".encode())
    return out


def ref_merge(seq, vals, replace):
    """seq: list of field lists; vals: list of value lists -> ordered [(type, name, value)]"""
    order = []
    info = {}
    for fields, values in zip(seq, vals):
        for (t, n), v in zip(fields, values):
            if n not in info:
                order.append(n)
                info[n] = (t, v)
            elif replace:
                info[n] = (t, v)
    return [(info[n][0], n, info[n][1]) for n in order]


def _same(a, b):
    return (a is None and b is None) or (a is not None and b is not None and a == b)


def extend(shape: str, shared: bool = False, unset: int = 0):
    from flow.record import extend_record
    from flow.record.base import merge_record_descriptors

    idx = [int(c) for c in shape]
    # shared: a repeated pool index is the *same* descriptor object (records of one type occurring twice in the chain)
    descs = [_desc(i, f"t/p{i}" if shared else f"t/r{k}") for k, i in enumerate(idx)]
    seq = [POOL[i] for i in idx]

    def check(replace: bool, rename: bool, v0: int, v1: int, v2: int, v3: int, v4: int, v5: int, v6: int, v7: int, v8: int) -> bool:
        """
        post: _
        """
        carriers = [v0, v1, v2, v3, v4, v5, v6, v7, v8]
        vals = [_values(i, k, carriers) for k, i in enumerate(idx)]
        # an unset (None) value of the record that wins is the value: it is not filled in from a record of lower precedence
        if unset == 1:
            vals[0] = [None] * len(vals[0])
        if unset == 2:
            vals[-1] = [None] * len(vals[-1])
        recs = [d(*v, _generated=GEN) for d, v in zip(descs, vals)]
        before = [r._pack() for r in recs]
        name = "new/name" if rename else None
        out = extend_record(recs[0], recs[1:], replace=replace, name=name)
        exp = ref_merge(seq, vals, replace)
        if [(t, n) for t, n, _ in exp] != list(out._desc.get_field_tuples()):
            return False
        if out._desc.name != (name or descs[0].name):
            return False
        for t, n, v in exp:
            got = getattr(out, n)
            if not _same(got, v):
                return False
            if t != "record" and got is not None and type(got).__name__ != t:
                return False
        merged = merge_record_descriptors(tuple(descs), replace, name)
        if merged.get_field_tuples() != out._desc.get_field_tuples() or merged.name != out._desc.name:
            return False
        return [r._pack() for r in recs] == before

    return check


TS_POOL = [("datetime", "ts"), ("datetime", "other"), ("datetime", "ctime"), ("string", "ts_description"), ("record", "x"), ("string", "label")]
TS_VALUES = {"ts": _dt.datetime(2001, 1, 1, tzinfo=UTC), "other": _dt.datetime(2002, 2, 2, tzinfo=UTC), "ctime": _dt.datetime(2003, 3, 3, tzinfo=_dt.timezone(_dt.timedelta(hours=2))), "ts_description": "original description", "label": "lbl"}


def timestamps(shape: str):
    from flow.record import RecordDescriptor, iter_timestamped_records

    fields = [TS_POOL[int(c)] for c in shape]
    D = RecordDescriptor("t/stamped", fields)

    def check(x: int, has_src: bool, unset: int) -> bool:
        """
        post: _
        """
        if not (-1 <= unset < len(fields)):
            return True
        kw = {}
        for j, (t, n) in enumerate(fields):
            kw[n] = x if t == "record" else TS_VALUES[n]
        for j, (t, n) in enumerate(fields):
            if unset == j and t == "datetime":
                kw[n] = None
        rec = D(_source="SRC" if has_src else None, _classification="CLS", _generated=GEN, **kw)
        before = rec._pack()
        out = list(iter_timestamped_records(rec))
        dts = [n for t, n in fields if t == "datetime"]
        if not dts:
            return len(out) == 1 and out[0] is rec
        if len(out) != len(dts):
            return False
        for o, n in zip(out, dts):
            if not _same(o.ts, kw[n]) or o.ts_description != n:
                return False
            names = [fn for _, fn in o._desc.get_field_tuples()]
            if names[:2] != ["ts", "ts_description"]:
                return False
            rest = [fn for _, fn in fields if fn not in ("ts", "ts_description")]
            if names[2:] != rest:
                return False
            for fn in rest:
                if not _same(getattr(o, fn), kw[fn]):
                    return False
            if o._desc.name != "t/stamped" or o._source != rec._source or o._classification != "CLS" or o._generated != GEN:
                return False
        return rec._pack() == before

    return check


def grouped(shape: str):
    from flow.record import GroupedRecord

    idx = [int(c) for c in shape]
    descs = [_desc(i, f"t/m{k}") for k, i in enumerate(idx)]
    seq = [POOL[i] for i in idx]

    def check(v0: int, v1: int, v2: int, v3: int, v4: int, v5: int, v6: int, v7: int, v8: int, newval: int, which: int) -> bool:
        """
        post: _
        """
        carriers = [v0, v1, v2, v3, v4, v5, v6, v7, v8]
        vals = [_values(i, k, carriers) for k, i in enumerate(idx)]
        recs = [d(*v, _generated=GEN) for d, v in zip(descs, vals)]
        g = GroupedRecord("grp/x", recs)
        exp = ref_merge(seq, vals, False)
        if [(t, n) for t, n, _ in exp] != list(g._desc.get_field_tuples()) or g._desc.name != "grp/x":
            return False
        for t, n, v in exp:
            if not _same(getattr(g, n), v):
                return False
        if [r._desc for r in g.records] != descs or any(a is not b for a, b in zip(g.records, recs)):
            return False
        # replace-style copy changes only the named field (flat view), originals untouched
        names = [n for _, n, _ in exp]
        if not (0 <= which < len(names)):
            return True
        target = None
        ttype = None
        for j, (t, n, _) in enumerate(exp):
            if which == j:
                target, ttype = n, t
        if ttype != "record":
            return True
        before = [r._pack() for r in recs]
        g2 = g._replace(**{target: newval})
        for t, n, v in exp:
            want = newval if n == target else v
            if not _same(getattr(g2, n), want):
                return False
        # member level: only the member that exposes the field changes, and only in that field
        owner = None
        for k, fields in enumerate(seq):
            if owner is None and any(n == target for _, n in fields):
                owner = k
        for k, (m_old, m_new) in enumerate(zip(recs, g2.records)):
            for _, n in seq[k]:
                want = newval if (k == owner and n == target) else getattr(m_old, n)
                if not _same(getattr(m_new, n), want):
                    return False
            if m_new._source != m_old._source or m_new._generated != m_old._generated:
                return False
        return [r._pack() for r in recs] == before and [(t, n) for t, n, _ in exp] == list(g2._desc.get_field_tuples())

    return check


def projection(xmask: int = 0, reverse: bool = False):
    from flow.record import RecordDescriptor
    from flow.record.stream import RecordFieldRewriter

    D = RecordDescriptor("t/proj", [("record", "a"), ("string", "b"), ("record", "c")])
    names = ["a", "b", "c"]

    xa, xb, xc = bool(xmask & 1), bool(xmask & 2), bool(xmask & 4)

    def check(fa: bool, fb: bool, fc: bool, funknown: bool, va: int, vc: int, repl: int, newv: int) -> bool:
        """
        post: _
        """
        rec = D(va, "text", vc, _source="S", _generated=GEN)
        before = rec._pack()
        flist = [n for n, b in zip(names, (fa, fb, fc)) if b]
        if funknown:
            flist.append("zz")
        if reverse:
            flist = flist[::-1]
        xlist = [n for n, b in zip(names, (xa, xb, xc)) if b]
        rw = RecordFieldRewriter(fields=flist, exclude=xlist)
        out = rw.rewrite(rec)
        if not flist and not xlist:
            if out is not rec:
                return False
        if flist:
            want = [n for n in flist if n in names and n not in xlist]
        else:
            want = [n for n in names if n not in xlist]
        types = {"a": "record", "b": "string", "c": "record"}
        if [(types[n], n) for n in want] != list(out._desc.get_field_tuples()) or out._desc.name != "t/proj":
            return False
        vals = {"a": va, "b": "text", "c": vc}
        for n in want:
            if not _same(getattr(out, n), vals[n]):
                return False
        if out._source != "S" or out._generated != GEN:
            return False
        # Record._replace changes only the named field
        if 0 <= repl < 3:
            target = None
            for j in range(3):
                if repl == j:
                    target = names[j]
            r2 = rec._replace(**{target: newv if target != "b" else "other"})
            for n in names:
                w = (newv if n != "b" else "other") if n == target else vals[n]
                if not _same(getattr(r2, n), w):
                    return False
            if r2._desc is not rec._desc or r2._source != "S" or r2._generated != GEN:
                return False
        return rec._pack() == before

    return check


def projection_layouts(xmask: int = 0, other_first: bool = False):
    """ONE rewriter serves two layouts that share a type name (schema evolution; extend_record keeps the name): each record is
    projected on its own fields, in either order of arrival."""
    from flow.record import RecordDescriptor
    from flow.record.stream import RecordFieldRewriter

    D = RecordDescriptor("t/proj", [("record", "a"), ("string", "b"), ("record", "c")])
    E = RecordDescriptor("t/proj", [("string", "b"), ("record", "q"), ("record", "a")])
    layouts = {"D": (["a", "b", "c"], {"a": "record", "b": "string", "c": "record"}), "E": (["b", "q", "a"], {"a": "record", "b": "string", "q": "record"})}
    xlist = [n for n, b in zip(["a", "b", "c"], (xmask & 1, xmask & 2, xmask & 4)) if b]

    def check(fa: bool, fb: bool, fq: bool, va: int, vc: int) -> bool:
        """
        post: _
        """
        flist = [n for n, b in zip(["a", "b", "q"], (fa, fb, fq)) if b]
        if not flist and not xlist:
            return True
        recs = {"D": D(va, "text", vc, _source="S", _generated=GEN), "E": E("etext", vc, va, _source="S2", _generated=GEN)}
        vals = {"D": {"a": va, "b": "text", "c": vc}, "E": {"b": "etext", "q": vc, "a": va}}
        rw = RecordFieldRewriter(fields=flist, exclude=xlist)
        for k in ("E", "D", "E") if other_first else ("D", "E", "D"):
            out = rw.rewrite(recs[k])
            names, types = layouts[k]
            want = [n for n in flist if n in names and n not in xlist] if flist else [n for n in names if n not in xlist]
            if [(types[n], n) for n in want] != list(out._desc.get_field_tuples()) or out._desc.name != "t/proj":
                return False
            for n in want:
                if not _same(getattr(out, n), vals[k][n]):
                    return False
            if out._source != recs[k]._source:
                return False
        return True

    return check


def shapes_extend(tier, seed):
    two = ["%d%d" % p for p in itertools.product(range(5), repeat=2)]
    three = ["%d%d%d" % p for p in itertools.product(range(5), repeat=3)]
    if tier == "thorough":
        return two + three
    aba = [s for s in three if s[0] == s[2] and s[0] != s[1]]
    rest = [s for s in three if s not in aba]
    random.Random(seed).shuffle(rest)
    return two + aba + rest[:10]


def shapes_ts(tier):
    out = [""]
    for k in (1, 2, 3):
        for perm in itertools.permutations(range(6), k):
            out.append("".join(map(str, perm)))
    if tier == "quick":
        three = [s for s in out if len(s) == 3 and (("0" in s and ("1" in s or "2" in s)) or "3" in s)]
        out = [s for s in out if len(s) <= 2] + three[::5]
    return out


def obligations(tier, seed):
    to = 40 if tier == "quick" else 120
    obs = []
    for s in shapes_extend(tier, seed):
        obs.append(ob(f"O1-extend/{s}", "xh", "extend", {"shape": s}, timeout=to, group="O1-extend", bounds="carriers all ints, replace / rename symbolic"))
        if len(s) == 2 or tier == "thorough":
            for unset, what in ((1, "first"), (2, "last")):
                obs.append(ob(f"O1-extend/{s}-unset-{what}", "xh", "extend", {"shape": s, "unset": unset}, timeout=to, group="O1-extend", bounds=f"as above; every value of the {what} record is unset (None)"))
        if len(set(s)) < len(s):
            obs.append(ob(f"O1-extend/{s}-shared", "xh", "extend", {"shape": s, "shared": True}, timeout=to, group="O1-extend", bounds="as above; repeated positions use one descriptor object"))
    for s in shapes_ts(tier):
        obs.append(ob(f"O2-timestamps/{s or 'empty'}", "xh", "timestamps", {"shape": s}, timeout=to, group="O2-timestamps", bounds="carrier all ints, metadata set/unset, one datetime field unset"))
    gs = ["%d%d" % p for p in itertools.product(range(5), repeat=2)] + (["%d%d%d" % p for p in itertools.product(range(5), repeat=3)] if tier == "thorough" else ["012", "210", "402", "204", "131", "324", "043"])
    for s in gs:
        obs.append(ob(f"O3-grouped/{s}", "xh", "grouped", {"shape": s}, timeout=to, group="O3-grouped"))
    for xmask in range(8):
        for rev in (False, True):
            obs.append(ob(f"O4-projection-layouts/x{xmask}{'o' if rev else ''}", "xh", "projection_layouts", {"xmask": xmask, "other_first": rev}, timeout=to * 2, group="O4-projection", bounds="2^3 projection lists, two layouts under one type name through one rewriter, both arrival orders"))
            obs.append(ob(f"O4-projection/x{xmask}{'r' if rev else ''}", "xh", "projection", {"xmask": xmask, "reverse": rev}, timeout=to * 2, group="O4-projection", bounds="2^4 projection lists x replace target, exclusion subset and order fixed by the driver"))
    return obs


# ------------------------------------------------------------------------------------------------ replay (typed fields, public API)
def replay(res):
    from flow.record import GroupedRecord, RecordDescriptor, extend_record, iter_timestamped_records
    from flow.record.stream import RecordFieldRewriter

    gid = res["id"]
    a = res["args"]
    cv = cex_args(res, ["replace", "rename"])
    if "O1-extend" in gid:
        idx = [int(c) for c in a["shape"]]
        TYPES = {"record": "varint"}
        for replace in ([bool(cv["replace"])] if "replace" in cv else []) + [False, True]:
            descs = [RecordDescriptor(f"t/p{i}" if a.get("shared") else f"t/r{k}", [(TYPES.get(t, t), n) for t, n in POOL[i]]) for k, i in enumerate(idx)]
            vals = [_values(i, k, list(range(100, 109))) for k, i in enumerate(idx)]
            if a.get("unset") == 1:
                vals[0] = [None] * len(vals[0])
            if a.get("unset") == 2:
                vals[-1] = [None] * len(vals[-1])
            recs = [d(*v) for d, v in zip(descs, vals)]
            exp = ref_merge([[(TYPES.get(t, t), n) for t, n in POOL[i]] for i in idx], vals, replace)
            try:
                out = extend_record(recs[0], recs[1:], replace=replace)
                got = [(t, n, getattr(out, n)) for t, n in out._desc.get_field_tuples()]
                bad = got != exp or any(getattr(out, n) is not None and type(getattr(out, n)).__name__ != t for t, n, _ in exp)
                detail = f"got {got}, expected {exp}"
            except Exception as e:  # noqa: BLE001
                bad, detail = True, f"raised {type(e).__name__}: {e}; expected {exp}"
            if bad:
                return {"reproduced": True, "key": f"C15/extend/{a['shape']}{'s' if a.get('shared') else ''}{'/unset' + str(a['unset']) if a.get('unset') else ''}/{replace}", "what": f"extend_record over descriptors {[POOL[i] for i in idx]} replace={replace}: {detail}"[:600], "input": {"shape": a["shape"], "replace": replace}}
        return {"reproduced": False, "what": "extend_record follows the precedence rules on concrete typed values"}
    if "O2-timestamps" in gid:
        fields = [TS_POOL[int(c)] for c in a["shape"]]
        D = RecordDescriptor("t/stamped", [(("varint" if t == "record" else t), n) for t, n in fields])
        kw = {n: (7 if t == "record" else TS_VALUES[n]) for t, n in fields}
        rec = D(_source="SRC", _classification="CLS", **kw)
        out = list(iter_timestamped_records(rec))
        dts = [n for t, n in fields if t == "datetime"]
        probs = []
        if dts:
            if len(out) != len(dts):
                probs.append(f"{len(out)} records for {len(dts)} datetime fields")
            for o, n in zip(out, dts):
                if o.ts != kw[n] or o.ts_description != n:
                    probs.append(f"expansion for {n!r}: ts={o.ts} ts_description={o.ts_description!r}, original {n}={kw[n]}")
                for fn in [f for _, f in fields if f not in ("ts", "ts_description")]:
                    if getattr(o, fn, "<missing>") != kw[fn]:
                        probs.append(f"expansion for {n!r} lost/changed field {fn}")
                if (o._source, o._classification) != ("SRC", "CLS"):
                    probs.append(f"expansion for {n!r} has metadata {(o._source, o._classification)}")
        elif not (len(out) == 1 and out[0] is rec):
            probs.append("record without datetime fields is not passed through")
        return {"reproduced": bool(probs), "key": "C15/timestamped/" + a["shape"], "what": f"iter_timestamped_records over fields {fields}: " + "; ".join(probs[:2]), "input": {"shape": a["shape"]}}
    if "O3-grouped" in gid:
        idx = [int(c) for c in a["shape"]]
        TYPES = {"record": "varint"}
        descs = [RecordDescriptor(f"t/m{k}", [(TYPES.get(t, t), n) for t, n in POOL[i]]) for k, i in enumerate(idx)]
        vals = [_values(i, k, list(range(100, 109))) for k, i in enumerate(idx)]
        g = GroupedRecord("grp/x", [d(*v) for d, v in zip(descs, vals)])
        exp = ref_merge([[(TYPES.get(t, t), n) for t, n in POOL[i]] for i in idx], vals, False)
        got = [(t, n, getattr(g, n)) for t, n in g._desc.get_field_tuples()]
        if got == exp:
            # replace-style copy: only the named field of the member that exposes it changes; every member keeps its other values
            probs = []
            for t, n, _ in exp:
                if t != "varint":
                    continue
                try:
                    g2 = g._replace(**{n: 777})
                except Exception as e:  # noqa: BLE001
                    probs.append(f"_replace({n}=777) raised {type(e).__name__}: {e}")
                    continue
                owner = next(k for k, i in enumerate(idx) if any(fn == n for _, fn in POOL[i]))
                for k, (old, new) in enumerate(zip(g.records, g2.records)):
                    for _, fn in POOL[idx[k]]:
                        want = 777 if (k == owner and fn == n) else getattr(old, fn)
                        if getattr(new, fn) != want:
                            probs.append(f"_replace({n}=777): member {k} field {fn} is {getattr(new, fn)!r}, expected {want!r}")
            if probs:
                return {"reproduced": True, "key": "C15/grouped/replace-members", "what": f"GroupedRecord of {[POOL[i] for i in idx]}: " + "; ".join(probs[:2]), "input": {"shape": a["shape"]}}
        return {"reproduced": got != exp, "key": f"C15/grouped/{a['shape']}", "what": f"GroupedRecord of {[POOL[i] for i in idx]}: flat view {got}, expected (first member wins) {exp}"[:600], "input": {"shape": a["shape"]}}
    if "O4-projection" in gid:
        D = RecordDescriptor("t/proj", [("varint", "a"), ("string", "b"), ("varint", "c")])
        rec = D(1, "text", 3)
        probs = []
        for flist in ([], ["a"], ["c", "a"], ["b", "zz", "a"], ["a", "b", "c"]):
            for xlist in ([], ["a"], ["b", "c"]):
                out = RecordFieldRewriter(fields=flist, exclude=xlist).rewrite(rec)
                want = [n for n in flist if n in "abc" and n not in xlist] if flist else [n for n in "abc" if n not in xlist]
                got = [n for _, n in out._desc.get_field_tuples()]
                if got != want or any(getattr(out, n) != getattr(rec, n) for n in want):
                    probs.append(f"-F {flist} -X {xlist}: fields {got}, expected {want}")
        # one rewriter, two layouts under one type name, both arrival orders (typed fields, public API)
        E = RecordDescriptor("t/proj", [("string", "b"), ("varint", "q"), ("varint", "a")])
        other = E("etext", 7, 8)
        for flist in ([], ["a"], ["b", "q"], ["q", "a", "b"]):
            for xlist in ([], ["a"], ["b", "c"]):
                if not flist and not xlist:
                    continue
                for order in ((rec, other, rec), (other, rec, other)):
                    rw = RecordFieldRewriter(fields=flist, exclude=xlist)
                    for r_ in order:
                        out = rw.rewrite(r_)
                        names = [n for _, n in r_._desc.get_field_tuples()]
                        want = [n for n in flist if n in names and n not in xlist] if flist else [n for n in names if n not in xlist]
                        got = [n for _, n in out._desc.get_field_tuples()]
                        if got != want or any(getattr(out, n) != getattr(r_, n) for n in want):
                            probs.append(f"one rewriter (-F {flist} -X {xlist}) over two layouts of 't/proj': record with fields {names} rewritten to fields {got}, expected {want}")
        r2 = rec._replace(a=9)
        if (r2.a, r2.b, r2.c) != (9, "text", 3) or (rec.a, rec.b, rec.c) != (1, "text", 3):
            probs.append("_replace changed more than the named field or the original")
        return {"reproduced": bool(probs), "key": "C15/projection", "what": "; ".join(probs[:2]), "input": {}}
    return {"reproduced": False, "what": "no replay"}
