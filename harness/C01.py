"""C01 - record stream round trip preserves every record exactly (repo-side codec layer).

O1 varint extension codec (SMT-BV, generated from the AST of pack_obj / unpack_obj)
O2 slot order, None and defaults through Record._pack and the generated _unpack (both class templates)
O3 addresses through the pure-Python stdlib ipaddress (family and integer preserved)
O5 typed lists (order, length, None -> empty)
O6 nested and grouped records through pack_obj / unpack_obj over the tree-level msgpack model
O7 flavour bits of path / command and the digest triple
O8 sequences: every history of K records over a universe of record kinds (types sharing a name, types whose identifiers coincide,
   nested / grouped holders, a record of every field type) written to ONE stream reads back as the same sequence (the history is
   the symbolic dimension; the concrete part of a path runs the real writer/reader outside the tracer)
"""
import io
import struct
from typing import Optional

from harness import kernels
from harness.common import cex_args, mk, tempdir

PROPERTY = "C01"
FUNCTIONS = [
    "flow.record.packer:RecordPacker.pack_obj",
    "flow.record.packer:RecordPacker.unpack_obj",
    "flow.record.packer:RecordPacker.register",
    "flow.record.base:Record._pack",
    "flow.record.base:_generate_record_class",
    "flow.record.base:GroupedRecord.__init__",
    "flow.record.base:GroupedRecord._pack",
    "flow.record.fieldtypes.net.ip:ipaddress._pack",
    "flow.record.fieldtypes.net.ip:ipaddress._unpack",
    "flow.record.fieldtypes:typedlist._pack",
    "flow.record.fieldtypes:typedlist._unpack",
    "flow.record.fieldtypes:path._pack",
    "flow.record.fieldtypes:path._unpack",
    "flow.record.fieldtypes:command._pack",
    "flow.record.fieldtypes:command._unpack",
    "flow.record.fieldtypes:digest._pack",
    "flow.record.fieldtypes:digest._unpack",
]
BOUNDS = {
    "varint": "|v| < 2^136 (quick) / 2^520 (thorough), one SMT path per bit length",
    "slots": "n <= 4 declared fields, carrier values all ints / None, list length <= 2",
    "addresses": "all 2^32 IPv4 and all 2^128 IPv6 addresses",
    "nested": "carriers in msgpack's native range [-2^63, 2^64) (outside it the varint branch decides), 4 shapes",
    "sequences": "K = 3 (quick) / 4 (thorough) records per stream over 21 record kinds (C03's two universes + typed rows), every history",
}
STUBS = [
    "tree-level msgpack (vf/models/msgtree.py): native types pass through, everything else goes through default / ext_hook; validated against the real msgpack every run",
    "carrier fields of the documented pass-through type 'record' keep values symbolic through Record.__setattr__/_pack/_unpack",
    "stdlib ipaddress: _check_int_address without its '%'-formatted error message; the text form of an address is a marker object (rendering/parsing text is the stdlib's)",
]
OUTSIDE = ["msgpack's byte-level fidelity for its native types (text code points, float bits, int64/uint64)", "timestamps (C13)", "normalisation inside pathlib / shlex"]
ASSUMPTIONS = ["a record is observed by type name, field tuples and slot values (class and flavour of each value), not by Record.__eq__"]

ob = mk("harness.C01", PROPERTY)


def varint(min_bits: int, max_bits: int, width: int, cross: bool = False):
    return kernels.varint_codec(max_bits=max_bits, width=width, cross=cross, min_bits=min_bits)


def varint_decode(max_bits: int, width: int):
    return kernels.varint_spec_decode(max_bits=max_bits, width=width)


def slots_norm():
    from flow.record import RecordDescriptor

    N = RecordDescriptor("t/norm", [("record", "a"), ("record", "b"), ("record[]", "c"), ("record", "d")])

    def check(a: int, b: Optional[int], c0: int, c1: int, clen: int, d: Optional[int], has_src: bool, has_cls: bool) -> bool:
        """
        post: _
        """
        if not (0 <= clen <= 2):
            return True
        c = [] if clen == 0 else ([c0] if clen == 1 else [c0, c1])
        rec = N(a, b, c, d, _source="S" if has_src else None, _classification="C" if has_cls else None, _generated=1)
        ident, values = rec._pack()
        back = N.recordType._unpack(*values)
        return (
            back.a == a
            and ((b is None and back.b is None) or (b is not None and back.b == b))
            and list(back.c) == c
            and ((d is None and back.d is None) or (d is not None and back.d == d))
            and back._source == rec._source
            and back._classification == rec._classification
            and back._generated == rec._generated
            and back._version == 1
            and ident == N.identifier
            and len(values) == 8
        )

    return check


def slots_kw():
    from flow.record import RecordDescriptor

    K = RecordDescriptor("t/kw", [("record", "from"), ("record", "a"), ("record", "class"), ("record[]", "in")])

    def check(f: int, a: Optional[int], k: int, i0: int, ilen: int) -> bool:
        """
        post: _
        """
        if not (0 <= ilen <= 1):
            return True
        il = [i0] if ilen == 1 else []
        rec = K(f, a, k, il, _generated=1)
        ident, values = rec._pack()
        back = K.recordType._unpack(*values)
        g = getattr
        return (
            g(back, "from") == f
            and ((a is None and back.a is None) or (a is not None and back.a == a))
            and g(back, "class") == k
            and list(g(back, "in")) == il
            and back._generated == rec._generated
            and back._version == 1
        )

    return check


def unset_defaults():
    """unset typed lists and digests come back as the type's empty default; other unset fields stay None"""
    from flow.record import RecordDescriptor

    D = RecordDescriptor("t/defaults", [("record", "a"), ("string[]", "l"), ("digest", "d"), ("uint16[]", "u"), ("string", "s")])

    def check(a: Optional[int], set_list: bool, set_digest: bool) -> bool:
        """
        post: _
        """
        rec = D(a, ["x"] if set_list else None, ("d41d8cd98f00b204e9800998ecf8427e", None, None) if set_digest else None, None, None, _generated=1)
        ident, values = rec._pack()
        back = D.recordType._unpack(*values)
        ok_a = (a is None and back.a is None) or (a is not None and back.a == a)
        ok_l = list(back.l) == (["x"] if set_list else []) and type(back.l).__name__ == "string[]"
        ok_d = (back.d.md5 == ("d41d8cd98f00b204e9800998ecf8427e" if set_digest else None)) and back.d.sha1 is None and back.d.sha256 is None
        return ok_a and ok_l and ok_d and list(back.u) == [] and back.s is None

    return check


def ip(version: int):
    """Address family and integer survive _pack/_unpack. The integer path runs through the real (pure-Python) stdlib
    ipaddress; for the text form - which the stdlib renders and parses, outside the claim - a stand-in address object
    shows that _pack chooses text exactly for the IPv6 addresses an integer could not represent (below 2^32)."""
    import ipaddress as ipa

    from flow.record.fieldtypes.net.ip import ipaddress as F

    class TextMarker(str):
        pass

    def quiet_check_int_address(self, address):
        # the stdlib's own check, minus the '%'-formatted message (formatting realises the symbolic integer)
        if address < 0:
            raise ipa.AddressValueError("negative")
        if address > self._ALL_ONES:
            raise ipa.AddressValueError("too large")

    class StandIn:
        def __init__(self, version, v):
            self.version = version
            self._v = v

        def __int__(self):
            return self._v

        def __str__(self):
            return TextMarker("TEXT")

    def check(v: int) -> bool:
        """
        post: _
        """
        if version == 4:
            if not (0 <= v < 2**32):
                return True
        else:
            if not (0 <= v < 2**128):
                return True
        a = F.__new__(F)
        a.val = StandIn(version, v)
        packed = a._pack()
        ambiguous = version == 6 and v < 2**32  # an integer below 2^32 is read back as IPv4
        if ambiguous:
            return isinstance(packed, str) and packed == "TEXT"
        if isinstance(packed, str):
            # text would also be exact, but then it must be the address's own text form
            return packed == "TEXT"
        saved = ipa._IPAddressBase._check_int_address
        ipa._IPAddressBase._check_int_address = quiet_check_int_address
        try:
            b = F._unpack(packed)
        finally:
            ipa._IPAddressBase._check_int_address = saved
        return b.val.version == version and int(b.val) == v

    return check


def typed_list(elem: str):
    from flow.record.base import fieldtype

    T = fieldtype(elem + "[]")

    def check(n: int, e0: int, e1: int, e2: int, none: bool) -> bool:
        """
        post: _
        """
        if not (0 <= n <= 3):
            return True
        if elem == "uint16" and not all(0 <= e <= 0xFFFF for e in (e0, e1, e2)):
            return True
        items = []
        if n >= 1:
            items.append(e0)
        if n >= 2:
            items.append(e1)
        if n >= 3:
            items.append(e2)
        lst = T(None if none else items)
        packed = lst._pack()
        back = T._unpack(packed)
        exp = [] if none else items
        return len(back) == len(exp) and all(int(x) == y for x, y in zip(back, exp)) and isinstance(back, T)

    return check


def _obs(r):
    from flow.record import GroupedRecord, Record

    if isinstance(r, GroupedRecord):
        return ("G", r.name, [_obs(x) for x in r.records])
    if isinstance(r, Record):
        return (r._desc.name, r._desc.get_field_tuples(), [_obs(getattr(r, k)) for k in r.__slots__ if k != "_generated"])
    if isinstance(r, list):
        return [_obs(x) for x in r]
    return r


def nested(shape: int):
    from flow.record import GroupedRecord, RecordDescriptor
    from flow.record.packer import RecordPacker
    from vf.models import msgtree

    INNER = RecordDescriptor("t/inner", [("record", "v"), ("record", "w")])
    HOLD = RecordDescriptor("t/hold", [("record", "inner"), ("record[]", "many"), ("record", "x")])
    OTHER = RecordDescriptor("t/other", [("record", "v")])

    def check(a: int, b: Optional[int], c: int, big: int) -> bool:
        """
        post: _
        """
        if not all(-(2**63) <= q < 2**64 for q in (a, c, big)) or (b is not None and not -(2**63) <= b < 2**64):
            return True
        i1 = INNER(a, b, _generated=1)
        i2 = INNER(c, big, _generated=1)
        if shape == 0:
            rec = HOLD(i1, [], c, _generated=1)
        elif shape == 1:
            rec = HOLD(None, [i1, i2], big, _generated=1)
        elif shape == 2:
            rec = GroupedRecord("g/x", [i1, OTHER(c, _generated=1)])
        else:
            rec = GroupedRecord("g/y", [HOLD(i2, [i1], a, _generated=1), OTHER(big, _generated=1)])
        with msgtree.installed():
            frames = []
            wpk = RecordPacker()
            wpk.on_descriptor.add_handler(lambda d: frames.append(wpk.pack(d)))
            frames.append(wpk.pack(rec))
            rpk = RecordPacker()
            out = None
            for f in frames:
                o = rpk.unpack(f)
                if hasattr(o, "recordType"):
                    rpk.register(o)
                else:
                    out = o
        return _obs(out) == _obs(rec)

    return check


FLAVOUR_TABLE = [
    ("path", "posix", "/usr/bin/env"),
    ("path", "posix", "relative/dir/file.txt"),
    ("path", "posix", ""),
    ("path", "windows", "C:\\Windows\\System32\\cmd.exe"),
    ("path", "windows", "c:/mixed/slashes"),
    ("path", "windows", "\\\\server\\share\\x"),
    ("command", "posix", "/bin/ls -l 'a b'"),
    ("command", "windows", "C:\\x.exe /d /a"),
    ("command", "posix", "ls"),
    ("command", "windows", "'c:\\path to some exe' /d"),
]


def flavour():
    """path/command flavour and content survive _pack/_unpack for every table entry (index chosen symbolically);
    digest members set/unset in every combination."""
    from flow.record import fieldtypes as FT

    vals = []
    for kind, fl, text in FLAVOUR_TABLE:
        if kind == "path":
            vals.append(FT.path.from_posix(text) if fl == "posix" else FT.path.from_windows(text))
        else:
            vals.append(FT.command.from_posix(text) if fl == "posix" else FT.command.from_windows(text))
    MD5, SHA1, SHA256 = "d41d8cd98f00b204e9800998ecf8427e", "da39a3ee5e6b4b0d3255bfef95601890afd80709", "e3b0c44298fc1c149afbf4c8996fb92427ae41e4649b934ca495991b7852b855"

    def check(i: int, m: bool, s1: bool, s2: bool) -> bool:
        """
        post: _
        """
        if not (0 <= i < len(vals)):
            return True
        v = None
        for j in range(len(vals)):
            if i == j:
                v = vals[j]
        kind, fl, text = None, None, None
        for j in range(len(vals)):
            if i == j:
                kind, fl, text = FLAVOUR_TABLE[j]
        cls = FT.path if kind == "path" else FT.command
        back = cls._unpack(v._pack())
        same_flavour = type(back) is type(v)
        same_value = (str(back) == str(v)) if kind == "path" else (back.executable == v.executable and back.args == v.args and type(back.executable) is type(v.executable))
        d = FT.digest((MD5 if m else None, SHA1 if s1 else None, SHA256 if s2 else None))
        db = FT.digest._unpack(d._pack())
        same_digest = (db.md5, db.sha1, db.sha256) == (d.md5, d.sha1, d.sha256) == (MD5 if m else None, SHA1 if s1 else None, SHA256 if s2 else None)
        return same_flavour and same_value and same_digest

    return check


_SEQ = None


def seq_universe():
    """record kinds for O8 as (maker, type name the record was created with or None, write must fail): C03's two universes (the pair
    whose identifiers coincide, same-name types, holders, grouped records of equal flat layout, look-alike type names, a write that
    fails while packing) plus typed rows"""
    global _SEQ
    if _SEQ is None:
        from harness import C03

        rows = replay_records()
        _SEQ = [(f, None, False) for f in C03.universe()]
        _SEQ += [(f, C03.CREATED_AS.get(("aux", i)), ("aux", i) in C03.FAILING) for i, f in enumerate(C03.universe("aux"))]
        _SEQ += [((lambda r=r: r), None, False) for r in (rows[1], rows[4], rows[5], rows[-10])]
    return _SEQ


def _expected(kinds):
    """-> (records to write in order with their 'must fail' flag, expected deep observations of what must come back)"""
    U = seq_universe()
    todo, want = [], []
    for i in kinds:
        make, created_as, failing = U[i]
        rec = make()
        todo.append((rec, failing))
        if not failing:
            d = deep(rec)
            if created_as is not None:
                d = (d[0], created_as) + tuple(d[2:])
            want.append(d)
    return todo, want


def _write_all(w, todo):
    for rec, failing in todo:
        if failing:
            try:
                w.write(rec)
            except Exception:  # noqa: BLE001 - the application catches the error and goes on
                continue
            return "writing a record with an unserialisable value did not raise"
        w.write(rec)
    return None


def stream_problem(kinds):
    """in-memory round trip of a sequence of kinds through the real stream writer / reader -> None or the first difference"""
    from flow.record.stream import RecordStreamReader, RecordStreamWriter

    todo, want = _expected(kinds)
    buf = io.BytesIO()
    w = RecordStreamWriter(buf)
    p = _write_all(w, todo)
    if p:
        return p
    w.flush()
    data = buf.getvalue()
    w.fp = None
    try:
        got = [deep(r) for r in RecordStreamReader(io.BytesIO(data))]
    except Exception as e:  # noqa: BLE001
        return f"reading back raised {type(e).__name__}: {e}"
    return None if got == want else _first_diff(got, want)


def path_problem(kinds):
    """the same through RecordWriter(path) / RecordReader(path), plain and gzip"""
    from flow.record import RecordReader, RecordWriter

    todo, want = _expected(kinds)
    with tempdir() as d:
        for ext in ("records", "records.gz"):
            wr = RecordWriter(f"{d}/x.{ext}")
            p = _write_all(wr, todo)
            wr.flush()
            wr.close()
            if p:
                return p
            try:
                rd = RecordReader(f"{d}/x.{ext}")
                got = [deep(r) for r in rd]
                rd.close()
            except Exception as e:  # noqa: BLE001
                return f"{ext}: reading back raised {type(e).__name__}: {e}"
            if got != want:
                return f"{ext}: " + _first_diff(got, want)
    return None


def sequences(k: int, first: int, second: int = -1):
    """second >= 0: the second kind is fixed by the driver too (keeps the thorough tier's obligations small)"""
    from crosshair.tracers import NoTracing

    n = len(seq_universe())

    def check(c1: int, c2: int, c3: int) -> bool:
        """
        post: _
        """
        codes = [c1, c2, c3][: k - 1]
        if second >= 0:
            if c1 != second:
                return True
        if not all(0 <= c < n for c in codes):
            return True
        kinds = [first]
        for c in codes:
            for j in range(n):
                if c == j:
                    kinds.append(j)
        with NoTracing():
            return stream_problem(kinds) is None

    return check


def model_validation():
    from vf.models import msgtree

    return msgtree.validate()


def obligations(tier, seed):
    obs = [ob("side/msgtree-vs-msgpack", "side", "model_validation", {})]
    maxb, width = (136, 160) if tier == "quick" else (520, 544)
    step = 17 if tier == "quick" else 20
    lo = 0
    while lo <= maxb:
        hi = min(lo + step - 1, maxb)
        obs.append(ob(f"O1-varint/bits{lo}-{hi}", "smt", "varint", {"min_bits": lo, "max_bits": hi, "width": width, "cross": tier == "thorough" or lo == 0}, timeout=120 if tier == "quick" else 900, group="O1-varint", bounds=f"bit lengths {lo}..{hi}, both signs"))
        lo = hi + 1
    obs.append(ob("O1-varint-spec-decode", "smt", "varint_decode", {"max_bits": maxb, "width": width}, timeout=120, group="O1-varint", bounds=f"payloads of 0..{(maxb + 7) // 8} arbitrary bytes x sign flag"))
    to = 40 if tier == "quick" else 180
    obs.append(ob("O2-slots/norm", "xh", "slots_norm", {}, timeout=to, group="O2-slots", bounds="all ints / None carriers, list length <= 2"))
    obs.append(ob("O2-slots/keyword-fields", "xh", "slots_kw", {}, timeout=to, group="O2-slots", bounds="*args/**kwargs class template"))
    obs.append(ob("O2-slots/unset-defaults", "xh", "unset_defaults", {}, timeout=to, group="O2-slots"))
    obs.append(ob("O3-ip/v4", "xh", "ip", {"version": 4}, timeout=to, group="O3-ip", bounds="all 2^32"))
    obs.append(ob("O3-ip/v6", "xh", "ip", {"version": 6}, timeout=to, group="O3-ip", bounds="all 2^128"))
    obs.append(ob("O5-typedlist/record", "xh", "typed_list", {"elem": "record"}, timeout=to, group="O5-typedlist", bounds="length <= 3, carrier elements"))
    for shape in range(4):
        obs.append(ob(f"O6-nested/shape{shape}", "xh", "nested", {"shape": shape}, timeout=to * 2, group="O6-nested", bounds="carriers in [-2^63, 2^64)"))
    k = 3 if tier == "quick" else 4
    for first in range(len(seq_universe())):
        if tier == "quick":
            obs.append(ob(f"O8-sequences/K{k}/first{first}", "xh", "sequences", {"k": k, "first": first}, timeout=to * 2, group="O8-sequences", bounds=f"{k} records x {len(seq_universe())} kinds, one stream"))
        else:
            for second in range(len(seq_universe())):
                obs.append(ob(f"O8-sequences/K{k}/first{first}-{second}", "xh", "sequences", {"k": k, "first": first, "second": second}, timeout=to, group="O8-sequences", bounds=f"{k} records x {len(seq_universe())} kinds, one stream (first two kinds fixed by the driver)"))
    obs.append(ob("O7-flavour", "xh", "flavour", {}, timeout=to * 2, group="O7-flavour", bounds=f"{len(FLAVOUR_TABLE)} path/command table entries x 8 digest member subsets (contents beyond the table: outside)"))
    return obs


# ------------------------------------------------------------------------------------------------ replay
def deep(v):
    """Observation that distinguishes the concrete kind of a value, not only its equality class."""
    import datetime as _dt
    import pathlib

    from flow.record import GroupedRecord, Record
    from flow.record import fieldtypes as FT

    if isinstance(v, GroupedRecord):
        return ("grouped", v.name, [deep(r) for r in v.records])
    if isinstance(v, Record):
        return ("record", v._desc.name, v._desc.get_field_tuples(), [(k, deep(getattr(v, k))) for k in v.__slots__])
    if isinstance(v, bool):
        return ("bool", v)
    if isinstance(v, FT.boolean):
        return ("boolean", int(v))
    if isinstance(v, int):
        return ("int", int(v))
    if isinstance(v, float):
        return ("float", struct.pack(">d", v).hex())
    if isinstance(v, _dt.datetime):
        return ("datetime", v.isoformat(), str(v.utcoffset()))
    if isinstance(v, pathlib.PurePath):
        return ("path", type(v).__name__, str(v))
    if isinstance(v, FT.command):
        return ("command", type(v).__name__, deep(v.executable), v.args)
    if isinstance(v, FT.digest):
        return ("digest", v.md5, v.sha1, v.sha256)
    if hasattr(v, "val") and hasattr(v.val, "version"):
        return ("ip", v.val.version, str(v.val))
    if isinstance(v, (list, tuple)):
        return (type(v).__name__ if not isinstance(v, list) else "list", [deep(x) for x in v])
    if isinstance(v, bytes):
        return ("bytes", v.hex())
    if isinstance(v, str):
        return ("str", [ord(c) for c in v])
    if isinstance(v, dict):
        return ("dict", sorted((k, deep(x)) for k, x in v.items()))
    if v is None:
        return None
    return (type(v).__name__, repr(v))


def real_roundtrip(records):
    """-> list of problems (empty = identical) through the stream writer/reader on BytesIO and through paths."""
    from flow.record import RecordReader, RecordWriter
    from flow.record.stream import RecordStreamReader, RecordStreamWriter

    want = [deep(r) for r in records]
    problems = []
    buf = io.BytesIO()
    w = RecordStreamWriter(buf)
    for r in records:
        w.write(r)
    w.flush()
    data = buf.getvalue()
    w.fp = None
    got = [deep(r) for r in RecordStreamReader(io.BytesIO(data))]
    if got != want:
        problems.append(("stream", _first_diff(got, want)))
    with tempdir() as d:
        for ext in ("records", "records.gz"):
            p = f"{d}/x.{ext}"
            wr = RecordWriter(p)
            for r in records:
                wr.write(r)
            wr.flush()
            wr.close()
            rd = RecordReader(p)
            got = [deep(r) for r in rd]
            rd.close()
            if got != want:
                problems.append((ext, _first_diff(got, want)))
    return problems


def _first_diff(got, want):
    if len(got) != len(want):
        return f"{len(got)} records read, {len(want)} written"
    for i, (g, w) in enumerate(zip(got, want)):
        if g != w:
            return f"record {i}: read {_short_diff(g, w)}"
    return "?"


def _short_diff(g, w):
    if isinstance(g, tuple) and isinstance(w, tuple) and g[0] == w[0] == "record" and g[2] == w[2]:
        for (k, a), (_, b) in zip(g[3], w[3]):
            if a != b:
                return f"field {k}: {a!r}, written {b!r}"
    return f"{g!r}, written {w!r}"[:400]


def replay_records():
    """A fixed battery of records over every serialisable whitelisted type used when a candidate has no direct translation."""
    import datetime as _dt

    from flow.record import GroupedRecord, RecordDescriptor
    from flow.record import fieldtypes as FT

    D = RecordDescriptor(
        "test/all",
        [("varint", "n"), ("string", "s"), ("bytes", "b"), ("float", "f"), ("boolean", "t"), ("uint16", "u16"), ("uint32", "u32"), ("datetime", "dt"), ("path", "p"),
         ("command", "c"), ("net.ipaddress", "ip"), ("net.ipnetwork", "net"), ("digest", "dg"), ("uri", "uri"), ("string[]", "sl"), ("varint[]", "vl"), ("net.ipaddress[]", "ipl"),
         ("path[]", "pl"), ("filesize", "fs"), ("unix_file_mode", "mode"), ("dictlist", "dl"), ("stringlist", "stl"), ("wstring", "ws"), ("dynamic", "dyn")],
    )
    N = RecordDescriptor("test/nest", [("record", "inner"), ("record[]", "many"), ("varint", "k")])
    K = RecordDescriptor("test/kw", [("varint", "from"), ("string", "class")])
    utc = _dt.timezone.utc
    rows = [
        D(0, "", b"", 0.0, False, 0, 0, _dt.datetime(1970, 1, 1, tzinfo=utc), FT.path.from_posix("/a/b"), FT.command.from_posix("ls -l"), "0.0.0.1", "10.0.0.0/8", None, "http://x/y", [], [], [], [], 0, 0, [], [], "", None),
        D(2**63, "\udcff\u00e9\U0001f600", b"\x00\xff", -0.0, True, 0xFFFF, 0xFFFFFFFF, _dt.datetime(9999, 12, 31, 23, 59, 59, 999999, tzinfo=_dt.timezone(_dt.timedelta(hours=5, minutes=30))), FT.path.from_windows("C:\\x\\y"),
          FT.command.from_windows("c:\\x.exe /a"), "::1", "::/0", ("d41d8cd98f00b204e9800998ecf8427e", "da39a3ee5e6b4b0d3255bfef95601890afd80709", None), "ftp://u:p@h:21/", ["b", "a", "a"], [2**64, -(2**63) - 1, 0],
          ["::ffff:ffff", "255.255.255.255", "::1:0:0"], [FT.path.from_windows("c:\\a"), FT.path.from_posix("b")], 2**40, 0o777, [{"k": "v"}], ["z", "y"], "w", 2**70),
        D(-(2**64), None, None, None, None, None, None, None, None, None, None, None, None, None, None, None, None, None, None, None, None, None, None, None),
        D(2**64 - 1, "x", b"y", float("inf"), 1, 1, 1, _dt.datetime(1, 1, 1, tzinfo=utc), FT.path.from_posix(""), FT.command.from_posix("'a b' c"), "::ffff:fffe", "192.168.0.0/16", (None, None, "e3b0c44298fc1c149afbf4c8996fb92427ae41e4649b934ca495991b7852b855"), "x", ["only"], [2**136 - 1], ["1.2.3.4"], [], 1, 1, [], [], "", "text"),
    ]
    inner = D(5, "in", b"", 1.5, True, 1, 2, None, None, None, "::2", None, None, None, ["q"], [1], [], [], 1, 1, [], [], "", 3)
    rows.append(N(inner, [inner, rows[1]], 7))
    rows.append(K(1, "two"))
    # falsy-but-set values in both class templates (a descriptor with a Python keyword as field name uses the *args/**kwargs one)
    K2 = RecordDescriptor("test/kw2", [("varint", "from"), ("string", "class"), ("boolean", "is"), ("float", "in"), ("bytes", "def"), ("string[]", "for"), ("uint16", "if"), ("varint[]", "x")])
    P2 = RecordDescriptor("test/plain2", [("varint", "a"), ("string", "b"), ("boolean", "c"), ("float", "d"), ("bytes", "e"), ("string[]", "f"), ("uint16", "g"), ("varint[]", "x")])
    for T in (K2, P2):
        rows.append(T(0, "", False, 0.0, b"", [], 0, [0]))
        rows.append(T(0, "", False, -0.0, b"", [""], 0, []))
        rows.append(T(None, None, None, None, None, None, None, None))
        rows.append(T(-1, " ", True, 1.0, b"\x00", ["", "a"], 1, [0, 0]))
    rows.append(GroupedRecord("grp", [K(3, "k"), N(None, [], 2**65)]))
    rows.append(N(None, None, None))
    # timestamp instant AND UTC offset: offsets with seconds / microseconds, the extreme offsets, instants before 1970 and in year 1 / 9999
    TZ = RecordDescriptor("test/tz", [("datetime", "a"), ("datetime[]", "l")])
    td = _dt.timedelta
    offs = [td(minutes=19, seconds=32), -td(minutes=19, seconds=32), td(hours=23, minutes=59, seconds=59), -td(hours=23, minutes=59, seconds=59), td(seconds=1), td(microseconds=1), -td(hours=2, minutes=30), td(0)]
    stamps = [_dt.datetime(1883, 11, 18, 12, 0, 0, 1, tzinfo=_dt.timezone(o)) for o in offs] + [_dt.datetime(1, 1, 2, tzinfo=_dt.timezone(offs[0])), _dt.datetime(9999, 12, 30, 23, 59, 59, 999999, tzinfo=_dt.timezone(offs[1]))]
    for st in stamps:
        rows.append(TZ(st, [st, stamps[0]]))
    return rows


def replay(res):
    from flow.record import RecordDescriptor

    gid = res["id"]
    if res["kind"] == "side":
        out = model_validation()
        return {"reproduced": False, "what": "tree model differs from real msgpack (harness error): " + out["detail"]}
    recs = None
    what_in = ""
    if "varint" in gid:
        m = (res.get("cex") or {}).get("kw") or {}
        D = RecordDescriptor("test/varint", [("varint", "n"), ("varint[]", "l")])
        vals = []
        if isinstance(m.get("v"), int):
            vals.append(m["v"])
        if m.get("bytes") is not None:
            v = int.from_bytes(bytes.fromhex(m["bytes"]), "big")
            vals.append(-v if m.get("neg") else v)
        for b in (63, 64, 65, 71, 72, 127, 128, 135, 136, 519, 520):
            vals += [2**b, 2**b - 1, -(2**b), -(2**b) - 1, -(2**b) + 1]
        recs = [D(v, [v, -v]) for v in vals]
        what_in = "big integers"
    elif "O3-ip" in gid:
        v = cex_args(res, ["v"]).get("v", 1)
        import ipaddress as ipa

        D = RecordDescriptor("test/ip", [("net.ipaddress", "ip"), ("net.ipaddress[]", "l")])
        addrs = [ipa.IPv6Address(v % 2**128), ipa.IPv6Address(1), ipa.IPv6Address(2**32 - 1), ipa.IPv6Address(2**32), ipa.IPv4Address(v % 2**32), ipa.IPv4Address(0), ipa.IPv4Address(2**32 - 1)]
        recs = [D(str(a), [str(a)]) for a in addrs]
        what_in = "addresses"
    elif "O8-sequences" in gid:
        v = cex_args(res, ["c1", "c2", "c3"])
        U = seq_universe()
        kinds = [res["args"]["first"]] + [c for c in [v.get("c1"), v.get("c2"), v.get("c3")][: res["args"]["k"] - 1] if isinstance(c, int) and 0 <= c < len(U)]
        prob = path_problem(kinds) or stream_problem(kinds)
        if prob:
            return {"reproduced": True, "key": f"C01/sequence/{kinds}", "what": f"sequence of record kinds {kinds}: {prob}"[:700], "input": {"kinds": kinds}}
        return {"reproduced": False, "what": f"sequence {kinds} reads back exactly through the path-based writer/reader"}
    if recs is not None:
        probs = real_roundtrip(recs)
        if probs:
            key = "C01/ipaddress/v6-below-2^32" if "O3-ip" in gid and "v6" in gid else f"C01/{gid.split('/')[1]}"
            return {"reproduced": True, "key": key, "what": f"round trip of {what_in} through {probs[0][0]}: {probs[0][1]}", "input": {"problems": [str(p) for p in probs[:3]]}}
    probs = real_roundtrip(replay_records())
    if probs:
        return {"reproduced": True, "key": f"C01/{gid.split('/')[1]}", "what": f"round trip through {probs[0][0]}: {probs[0][1]}", "input": {"problems": [str(p) for p in probs[:3]]}}
    return {"reproduced": False, "what": "the battery of real round trips is exact"}
