"""C07 - both selector engines compute the Python meaning of the expression.

Differential obligations: for one program and one engine, the real engine is executed symbolically over ALL field values
(two ints, two strings <= 2 chars, a bool, an optional int) and compared with plain Python evaluation of the same text
over a plain object (spec/selector_ref.py). Programs are enumerated from spec/grammar.py; values are decided by the solver.
"""
import random
from typing import Optional

from harness.common import cex_args, mk
from spec import grammar, selector_ref

PROPERTY = "C07"
FUNCTIONS = [
    "flow.record.selector:Selector.match",
    "flow.record.selector:CompiledSelector.match",
    "flow.record.selector:RecordContextMatcher.matches",
    "flow.record.selector:RecordContextMatcher._eval",
    "flow.record.selector:WrappedRecord.__getattr__",
    "flow.record.selector:TypeMatcher.__getattr__",
    "flow.record.selector:TypeMatcherInstance._op",
    "flow.record.selector:TypeMatcherInstance._values",
    "flow.record.selector:field_equals",
    "flow.record.selector:field_contains",
    "flow.record.selector:field_regex",
    "flow.record.selector:has_field",
    "flow.record.selector:name",
    "flow.record.selector:names",
    "flow.record.selector:resolve_attr_path",
    "flow.record.base:DynamicFieldtypeModule.__getattr__",
]
BOUNDS = {
    "values": "n, m: all ints (0..3 for bit operators, where CrossHair forks per bit); s, t: all strings of <= 2 characters; b: both booleans; o: None or any int",
    "nested programs": "25 Type.<type>[.<attribute>] programs over a record holding a record and a list of records x 2 engines",
    "typed programs": "76 helper / comparison / membership programs over a record with ipaddress (v4, v6), ipnetwork, uri, path, string[], bytes, float, command, filesize fields x 2 engines",
    "programs": "quick: every predicate with operands of depth <= 1 (spec/grammar.py) + 60 seeded and/or/not combinations, x 2 engines; "
    "thorough: operands of depth <= 2 + 1500 seeded combinations",
}
STUBS = ["field values are injected with object.__setattr__ after normal construction (varint/string/boolean define no operators of their own: checked at run time)"]
OUTSIDE = ["values of the non-primitive field types other than the fixed representatives of the typed family", "floats / true division, str.lower/upper on symbolic text, int->str (explored as hunt-only)", "identity 'is' on non-None operands", "records with datetime, path, digest fields"]
ASSUMPTIONS = [
    "the meaning of a program is plain Python evaluation over the field values with the documented helper semantics (spec/selector_ref.py)",
    "a case counts only when every sub-expression is defined (evaluates without exception) in plain Python",
]

ob = mk("harness.C07", PROPERTY)
OTHER = (7, 9, "q", "zz", True, 5)  # the record matched before the one under test
_D = None


def earlier_records():
    """Records matched by the same selector object before the one under test (readers and rdump reuse one selector for a whole
    stream): one of the same type name with a different layout (schema evolution: caches keyed by the NAME go stale), one of the
    same descriptor with other values."""
    from flow.record import RecordDescriptor

    D0 = RecordDescriptor(grammar.RECNAME, [("string", "x1"), ("varint", "x2"), ("string", "b")])
    # ... and one with the same name AND the same field names whose types differ (caches keyed by name and field names go stale)
    D1 = RecordDescriptor(grammar.RECNAME, [("string", "n"), ("string", "m"), ("varint", "s"), ("varint", "t"), ("string", "b"), ("string", "o")])
    return [D0("other-layout", 1, "text-not-bool"), D1("en", "em", 11, 12, "bee", "oh"), descriptor()(*OTHER)]


def descriptor():
    global _D
    if _D is None:
        from flow.record import RecordDescriptor

        _D = RecordDescriptor(grammar.RECNAME, grammar.FIELDS)
    return _D


def check_value_types_plain():
    """The injection device is sound only if the coercing field types add no operators of their own."""
    from flow.record import fieldtypes

    bad = []
    for cls in (fieldtypes.varint, fieldtypes.string, fieldtypes.boolean):
        own = [k for k in vars(cls) if k.startswith("__") and k[2:-2] in ("eq", "ne", "lt", "le", "gt", "ge", "contains", "add", "radd", "mul", "mod", "and", "or", "hash", "bool", "len")]
        if own:
            bad.append((cls.__name__, own))
    return {"ok": not bad, "detail": f"operator overrides on coercing field types: {bad}"}


def build_record(n, m, s, t, b, o):
    D = descriptor()
    rec = D(0, 0, "", "", False, None, _generated=1)
    for k, v in (("n", n), ("m", m), ("s", s), ("t", t), ("b", b), ("o", o)):
        object.__setattr__(rec, k, v)
    return rec


def diff(expr: str, engine: str, mode: str = "equal", small: bool = False, strlen: int = 2):
    """mode 'equal': engine result == reference; mode 'raises': the engine must raise (program outside the language)."""
    from flow.record.selector import CompiledSelector, Selector

    descriptor()
    code, subs = selector_ref.compile_ref(expr)
    sel = Selector(expr) if engine == "i" else CompiledSelector(expr)
    recs0 = earlier_records()

    def check(n: int, m: int, s: str, t: str, b: bool, o: Optional[int]) -> bool:
        """
        post: _
        """
        if len(s) > strlen or len(t) > strlen:
            return True
        if small and not (0 <= n <= 3 and 0 <= m <= 3):
            return True
        ns = selector_ref.namespace({"n": n, "m": m, "s": s, "t": t, "b": b, "o": o}, grammar.FIELDS, grammar.RECNAME)
        defined, exp = selector_ref.evaluate(code, subs, ns)
        if not defined:
            return True
        rec = build_record(n, m, s, t, b, o)
        # selectors are reused for every record of a stream: match an unrelated record first (one-step history)
        for rec0 in recs0:
            try:
                sel.match(rec0)
            except Exception:  # noqa: BLE001
                pass
        if mode == "raises":
            try:
                sel.match(rec)
            except Exception:  # noqa: BLE001
                return True
            return False
        if mode == "equal-or-refused":
            try:
                got = sel.match(rec)
            except Exception:  # noqa: BLE001 - refused: allowed for this program (never a different value)
                return True
            return bool(got) == exp
        return bool(sel.match(rec)) == exp

    return check


TYPED_FIELDS = [("net.ipaddress", "ip"), ("net.ipnetwork", "net"), ("uri", "u"), ("path", "p"), ("string", "s"), ("varint", "n"), ("string[]", "tags"), ("bytes", "by"), ("float", "f"), ("command", "cmd"),
                ("net.ipaddress", "ip6"), ("filesize", "fs"), ("string", "w")]
TYPED_PROGRAMS = [
    "field_equals(r, ['ip'], ['1.2.3.4'])", "field_equals(r, ['ip'], ['1.2.3.4'], nocase=False)", "field_equals(r, ['ip', 's'], ['9.9.9.9', '1.2.3.4'])", "field_equals(r, ['ip'], ['1.2.3.5'])",
    "field_equals(r, ['ip6'], ['::1'])", "field_equals(r, ['ip6'], ['0:0:0:0:0:0:0:1'])", "field_equals(r, ['net'], ['10.0.0.0/8'])", "field_equals(r, ['net', 'ip'], ['10.0.0.0/255.0.0.0'], nocase=False)",
    "field_equals(r, ['u'], ['HTTP://X/y'])", "field_equals(r, ['u'], ['HTTP://X/y'], nocase=False)", "field_equals(r, ['p'], ['/a/b'], nocase=False)", "field_equals(r, ['n', 's'], [3, 'a'], nocase=False)",
    "field_equals(r, ['s', 'u'], ['a', 'ab'], nocase=False)", "field_equals(r, ['fs'], [10], nocase=False)", "field_equals(r, ['cmd'], ['ls -l'], nocase=False)", "field_equals(r, ['tags'], [['a', 'b']], nocase=False)",
    "field_contains(r, ['u'], ['x/'], nocase=False)", "field_contains(r, ['u', 's'], ['a'], nocase=False)", "field_contains(r, ['tags'], ['a'], nocase=False)", "field_contains(r, ['tags', 's'], ['b', 'zz'], nocase=False)",
    "field_regex(r, ['u'], 'ht+p')", "field_regex(r, ['s', 'u'], '^a')", "field_regex(r, ['u'], 'y$')",
    "r.ip == '1.2.3.4'", "r.ip != '1.2.3.4'", "'1.2.3.4' == r.ip", "r.ip in net.ipnetwork('1.0.0.0/8')", "r.ip in net.ipnetwork('10.0.0.0/8')", "r.ip in r.net", "r.ip6 in net.ipnetwork('::/0')",
    "r.ip6 in net.ipnetwork('0.0.0.0/0')", "r.net == '10.0.0.0/8'", "'10.1.0.0/16' in r.net", "'11.0.0.0/16' in r.net", "r.ip == net.ipaddress('1.2.3.4')", "r.ip6 == '::1'", "r.ip6 == 1", "r.ip == 16909060",
    "r.u == 'http://x/y'", "r.u == r.s + 'ttp://x/y'", "r.p == '/a/b'", "r.p != '/a/b/'", "'a' in r.tags", "r.s in r.tags", "r.tags == ['a', 'b']", "r.tags + [r.s] == ['a', 'b', 'a']", "r.by == b'x'", "r.f > 1",
    "r.f * 2 == 3", "r.fs == 10", "r.fs + r.n > 10", "r.cmd == 'ls -l'", "r.cmd != r.s", "r.ip in [r.fs, '1.2.3.4']", "r.ip not in ['1.2.3.4']", "r.n in [r.fs, 3]", "any(x == r.ip for x in ['1.2.3.4', r.fs])",
    "all(x in r.net for x in ['10.0.0.1', r.ip])", "any(x in r.net for x in [r.ip, '10.2.3.4'])", "r.u in ['http://x/y'] and r.ip == '1.2.3.4'", "name(r) == 'test/typed' and r.ip6 != r.ip",
    # word boundaries with and without case folding, needles with upper-case letters, on concrete text
    "field_contains(r, ['u'], ['HTTP'], word_boundary=True)", "field_contains(r, ['u'], ['HTTP'], nocase=False, word_boundary=True)", "field_contains(r, ['u'], ['X'], word_boundary=True)",
    "field_contains(r, ['u'], ['tp'], word_boundary=True)", "field_contains(r, ['tags', 'u'], ['Y'], word_boundary=True)", "field_contains(r, ['w'], ['Disk', 'ERROR'], word_boundary=True)",
    "field_contains(r, ['w'], ['Error'], word_boundary=True)", "field_contains(r, ['w'], ['Error'], nocase=False, word_boundary=True)", "field_contains(r, ['w'], ['rror'], word_boundary=True)",
    "field_contains(r, ['w'], ['ERROR ON'])", "field_contains(r, ['w', 's'], ['sda'], nocase=False, word_boundary=True)", "field_equals(r, ['w'], ['DISK ERROR ON SDA'])", "field_equals(r, ['w'], ['DISK ERROR ON SDA'], nocase=False)",
    "field_regex(r, ['w'], 'error')", "field_regex(r, ['w'], 'Error')",
]


def typed_values(s, n):
    import flow.record.fieldtypes as FT

    return {"ip": FT.net.ipaddress("1.2.3.4"), "net": FT.net.ipnetwork("10.0.0.0/8"), "u": FT.uri("http://x/y"), "p": FT.path.from_posix("/a/b"), "s": s, "n": n, "tags": ["a", "b"], "by": b"x", "f": 1.5,
            "cmd": FT.command.from_posix("ls -l"), "ip6": FT.net.ipaddress("::1"), "fs": FT.filesize(10), "w": "Disk Error on SDA"}


def typed_diff(expr: str, engine: str):
    """Differential over a record with fields of the non-primitive field types (concrete typed values; one text and one integer field
    symbolic): the engine's verdict equals plain Python evaluation over the same field values with the reference helpers."""
    from flow.record import RecordDescriptor
    from flow.record.selector import CompiledSelector, Selector

    D = RecordDescriptor("test/typed", TYPED_FIELDS)
    code, subs = selector_ref.compile_ref(expr)
    sel = Selector(expr) if engine == "i" else CompiledSelector(expr)
    base = typed_values("", 0)
    proto = D(*[base[k] for _, k in TYPED_FIELDS], _generated=1)

    def check(s: str, n: int) -> bool:
        """
        post: _
        """
        if len(s) > 2:
            return True
        vals = dict(base)
        vals["s"] = s
        vals["n"] = n
        ns = selector_ref.namespace(vals, TYPED_FIELDS, "test/typed")
        defined, exp = selector_ref.evaluate(code, subs, ns)
        if not defined:
            return True
        rec = proto._replace()
        object.__setattr__(rec, "s", s)
        object.__setattr__(rec, "n", n)
        return bool(sel.match(rec)) == exp

    return check


# ---- Type.<type>[.<attribute>] over records that hold records (record / record[] fields): the matcher descends into them
NESTED_INNER = [("uri", "u"), ("path", "p"), ("string", "s2"), ("varint", "n2")]
NESTED_OUTER = [("record", "inner"), ("record[]", "many"), ("string", "s"), ("varint", "n"), ("uri", "ou")]
NESTED_PROGRAMS = [
    "Type.uri.scheme == 'ab'", "Type.uri.scheme == 'ftp'", "Type.uri.scheme == r.s", "Type.uri.netloc in ['x', r.s]", "Type.path.name == 'b'", "Type.path.name == r.s", "Type.path.suffix == '.txt'",
    "'t' in Type.uri.scheme", "Type.uri.scheme != 'ab'", "Type.uri.scheme >= r.s", "Type.string == r.s + 'n'", "Type.string == 'deep'", "Type.varint == r.n + 1", "Type.varint > r.n",
    "Type.varint == 41", "Type.uri == 'ftp://deep/c.txt'", "Type.uri.nosuchattr == 1", "Type.string.nosuchattr == r.s", "any(x == Type.uri.scheme for x in ['ftp', r.s])",
    "Type.string in ['deep']", "Type.string in [r.s + 'n']", "Type.string not in ['deep']", "Type.varint in [r.n + 1, 0]", "Type.uri.scheme in ['zz', r.s]", "Type.path.name not in [r.s]",
]


def nested_parts(s, n):
    """(outer values, inner values, [values of the records in the list]): the outer record's text and number are the symbolic ones;
    the programs compare them with values that exist only in the nested records, so a verdict hinges on a nested value"""
    import flow.record.fieldtypes as FT

    inner = {"u": FT.uri("ab://x/y"), "p": FT.path.from_posix("/a/b"), "s2": "in", "n2": 5}
    many = [{"u": FT.uri("ftp://deep/c.txt"), "p": FT.path.from_posix("/d/c.txt"), "s2": "deep", "n2": 41}, {"u": None, "p": None, "s2": None, "n2": None}]
    outer = {"s": s, "n": n, "ou": FT.uri("go://o/")}
    return outer, inner, many


class RefNestedType:
    """reference for Type.<type>[.<attr>...]: 'for any value of a field of that type, in this record or in a record it holds (at
    any depth), whose attribute chain exists'"""

    def __init__(self, tree, t=None, attrs=()):
        self._tree, self._t, self._attrs = tree, t, attrs

    def __getattr__(self, a):
        if a.startswith("_"):
            raise AttributeError(a)
        return RefNestedType(self._tree, a, ()) if self._t is None else RefNestedType(self._tree, self._t, self._attrs + (a,))

    def _vals(self, tree=None):
        fields, values = tree or self._tree
        out = []
        for ft, name in fields:
            v = values[name]
            if ft == self._t:
                ok = True
                for a in self._attrs:
                    if v is None or not hasattr(v, a):
                        ok = False
                        break
                    v = getattr(v, a)
                if ok:
                    out.append(v)
        for ft, name in fields:
            v = values[name]
            if ft == "record" and v is not None:
                out += self._vals(v)
            if ft == "record[]" and v is not None:
                for x in v:
                    out += self._vals(x)
        return out

    def _any(self, f):
        for v in self._vals():
            if f(v):
                return True
        return False

    def __eq__(self, o):
        return self._any(lambda v: v == o)

    def __ne__(self, o):
        return self._any(lambda v: v != o)

    def __lt__(self, o):
        return self._any(lambda v: v < o)

    def __le__(self, o):
        return self._any(lambda v: v <= o)

    def __gt__(self, o):
        return self._any(lambda v: v > o)

    def __ge__(self, o):
        return self._any(lambda v: v >= o)

    def __contains__(self, o):
        return self._any(lambda v: o in v)

    __hash__ = None


def _nested_ref(expr, s, n):
    outer, inner, many = nested_parts(s, n)
    tree = (NESTED_OUTER, dict(outer, inner=(NESTED_INNER, inner), many=[(NESTED_INNER, m) for m in many]))
    ns = selector_ref.namespace(dict(outer, inner=None, many=None), NESTED_OUTER, "test/outer")
    ns["Type"] = RefNestedType(tree)
    code, subs = selector_ref.compile_ref(expr)
    return selector_ref.evaluate(code, subs, ns)


def _nested_record(s, n, inject=False):
    from flow.record import RecordDescriptor

    DI = RecordDescriptor("test/inner", NESTED_INNER)
    DO = RecordDescriptor("test/outer", NESTED_OUTER)
    outer, inner, many = nested_parts("" if inject else s, 0 if inject else n)
    ri = DI(*[inner[k] for _, k in NESTED_INNER], _generated=1)
    rm = [DI(*[m[k] for _, k in NESTED_INNER], _generated=1) for m in many]
    ro = DO(ri, rm, outer["s"], outer["n"], outer["ou"], _generated=1)
    if inject:
        object.__setattr__(ro, "s", s)
        object.__setattr__(ro, "n", n)
    return ro


def nested_diff(expr: str, engine: str):
    """Differential for Type.<type>.<attribute> programs over a record holding records: the engine's verdict equals the reference
    meaning (any value of that type at any depth); text and number of the inner record symbolic."""
    from flow.record.selector import CompiledSelector, Selector

    sel = Selector(expr) if engine == "i" else CompiledSelector(expr)

    def check(s: str, n: int) -> bool:
        """
        post: _
        """
        if len(s) > 2:
            return True
        defined, exp = _nested_ref(expr, s, n)
        if not defined:
            return True
        return bool(sel.match(_nested_record(s, n, inject=True))) == exp

    return check


def generators_concrete(tier: str = "quick"):
    """Concrete complement of the symbolic obligations for programs with generator expressions: CrossHair evaluates any()/all() over
    symbolic elements without the early exit of the builtins, so the engine's behaviour after an abandoned generator (loop variables,
    cleanup) is only seen with concrete values. Every such program x a grid of field values x both engines against the reference."""
    from flow.record.selector import CompiledSelector, Selector

    D = descriptor()
    preds, _ = programs(tier, 0)
    gens = [(t, tags) for t, tags in preds if " for " in t and not (tags & {"hunt"})]
    grid = [(n, m, s_, t_, b, o) for n in (0, 1, 3, 5) for m in (0, 2, 5) for s_, t_ in (("", "a"), ("a", "ab"), ("b", "")) for b in (False, True) for o in (None, 1)]
    bad = []
    for text, tags in gens:
        code, subs = selector_ref.compile_ref(text)
        for eng, cls in (("i", Selector), ("c", CompiledSelector)):
            if eng == "i" and ("outside" in tags or "compiled-only" in tags or not grammar.uses_only_tables(text)):
                continue
            if eng == "c" and "interp-only" in tags:
                continue
            sel = cls(text)
            for vals in grid:
                v = dict(zip(["n", "m", "s", "t", "b", "o"], vals))
                defined, exp = selector_ref.evaluate(code, subs, selector_ref.namespace(v, grammar.FIELDS, grammar.RECNAME))
                if not defined:
                    continue
                try:
                    got, raised = bool(sel.match(D(*vals))), None
                except Exception as e:  # noqa: BLE001
                    got, raised = None, f"{type(e).__name__}: {e}"
                if raised and eng == "i" and "may-reject" in tags:
                    continue
                if raised or got != exp:
                    bad.append(f"{cls.__name__}({text!r}) on {v}: " + (f"raised {raised}" if raised else str(got)) + f", Python meaning: {exp}")
                    break
    return {"ok": not bad, "detail": f"{len(gens)} programs with generator expressions x {len(grid)} records x 2 engines; " + "; ".join(bad[:3]), "cex": {"kw": {"problems": bad[:8]}}}


def programs(tier, seed):
    depth = 1 if tier == "quick" else 2
    preds = grammar.predicates(depth)
    combos = grammar.combinations(preds, 60 if tier == "quick" else 1500, seed)
    return preds, combos


def obligations(tier, seed):
    preds, combos = programs(tier, seed)
    obs = [ob("side/plain-field-types", "side", "check_value_types_plain", {}), ob("side/generators-concrete", "side", "generators_concrete", {"tier": tier}, timeout=300)]
    to = 12 if tier == "quick" else 45
    idx = 0
    for text, tags in preds + combos:
        idx += 1
        in_tables = grammar.uses_only_tables(text)
        for eng in "ic":
            mode = "equal"
            if eng == "i" and ("outside" in tags or "compiled-only" in tags or not in_tables):
                mode = "raises"
            if eng == "c" and "interp-only" in tags:
                mode = "raises"
            if eng == "i" and "may-reject" in tags and mode == "equal":
                mode = "equal-or-refused"
            hunt = "hunt" in tags
            if hunt and tier == "quick" and idx % 8:
                continue
            group = "hunt" if hunt else ("outside" if mode == "raises" else ("combo" if idx > len(preds) else "pred"))
            obs.append(
                ob(
                    f"{group}/{eng}/{idx}:{text}",
                    "xh",
                    "diff",
                    {"expr": text, "engine": eng, "mode": mode, "small": "small" in tags},
                    timeout=(6 if tier == "quick" else 30) if hunt else (to * 3 if "small" in tags else (to * 2 if idx > len(preds) else to)),
                    group=f"{group}/{eng}",
                    bounds="ints 0..3 (bit operators)" if "small" in tags else "all ints; strings <= 2 chars",
                    hunt_only=hunt,
                )
            )
    for i, text in enumerate(TYPED_PROGRAMS):
        for eng in "ic":
            obs.append(ob(f"typed/{eng}/{i}:{text}", "xh", "typed_diff", {"expr": text, "engine": eng}, timeout=to * 2, group=f"typed/{eng}", bounds="s: all strings <= 2 chars, n: all ints; other fields hold concrete typed values"))
    for i, text in enumerate(NESTED_PROGRAMS):
        for eng in "ic":
            obs.append(ob(f"nested/{eng}/{i}:{text}", "xh", "nested_diff", {"expr": text, "engine": eng}, timeout=to * 2, group=f"nested/{eng}", bounds="outer record's s: all strings <= 2 chars, n: all ints; other fields hold concrete typed values; records nested one level (record and record[])"))
    return obs


# ------------------------------------------------------------------------------------------------ replay
def replay(res):
    if res["kind"] == "side" and "generators-concrete" in res["id"]:
        out = generators_concrete(res["args"].get("tier", "quick"))
        return {"reproduced": not out["ok"], "key": "C07/generators-concrete", "what": out["detail"][:700], "input": out["cex"]}
    if res["kind"] == "side":
        out = check_value_types_plain()
        return {"reproduced": False, "what": "injection device unsound: " + out["detail"]}
    from flow.record.selector import CompiledSelector, Selector

    a = res["args"]
    if res["id"].split("/")[1] == "nested":
        v = cex_args(res, ["s", "n"])
        cls = Selector if a["engine"] == "i" else CompiledSelector
        for s_, n_ in [(v.get("s", ""), v.get("n", 0)), ("ab", 4), ("", 0), ("b", 40), ("i", 7), ("go", 41), ("a", 5)]:
            defined, exp = _nested_ref(a["expr"], s_, n_)
            if not defined:
                continue
            try:
                got, raised = bool(cls(a["expr"]).match(_nested_record(s_, n_))), None
            except Exception as e:  # noqa: BLE001
                got, raised = None, f"{type(e).__name__}: {e}"
            if raised or got != exp:
                return {"reproduced": True, "key": f"C07/nested/{a['engine']}/{a['expr']}", "what": f"{cls.__name__}({a['expr']!r}) on a record (s={s_!r}, n={n_!r}, ou='go://o/') holding a record (u='ab://x/y', p='/a/b', s2='in', n2=5) and a list of records (u='ftp://deep/c.txt', p='/d/c.txt', s2='deep', n2=41; one all-unset): "
                        + (f"raised {raised}" if raised else f"{got}") + f", meaning over all values of that type at any depth: {exp}", "input": {"expr": a["expr"], "s": s_, "n": n_}}
        return {"reproduced": False, "what": "nested typed program agrees with the reference on the concrete values"}
    if "/typed/" in res["id"] or res["id"].split("/")[1] == "typed":
        from flow.record import RecordDescriptor

        v = cex_args(res, ["s", "n"])
        cls = Selector if a["engine"] == "i" else CompiledSelector
        D = RecordDescriptor("test/typed", TYPED_FIELDS)
        for s_, n_ in [(v.get("s", ""), v.get("n", 0)), ("a", 3), ("", 0), ("h", 10)]:
            vals = typed_values(s_, n_)
            ns = selector_ref.namespace(vals, TYPED_FIELDS, "test/typed")
            code, subs = selector_ref.compile_ref(a["expr"])
            defined, exp = selector_ref.evaluate(code, subs, ns)
            if not defined:
                continue
            rec = D(*[vals[k] for _, k in TYPED_FIELDS])
            try:
                got, raised = bool(cls(a["expr"]).match(rec)), None
            except Exception as e:  # noqa: BLE001
                got, raised = None, f"{type(e).__name__}: {e}"
            if raised or got != exp:
                return {"reproduced": True, "key": f"C07/typed/{a['engine']}/{a['expr']}", "what": f"{cls.__name__}({a['expr']!r}) on a record with ip=1.2.3.4, net=10.0.0.0/8, u='http://x/y', p='/a/b', tags=['a','b'], s={s_!r}, n={n_!r}: "
                        + (f"raised {raised}" if raised else f"{got}") + f", Python meaning: {exp}", "input": {"expr": a["expr"], "s": s_, "n": n_}}
        return {"reproduced": False, "what": "typed program agrees with the reference on the concrete values"}
    names = ["n", "m", "s", "t", "b", "o"]
    v = cex_args(res, names)
    if len(v) != len(names):
        return {"reproduced": False, "what": "no concrete counterexample values"}
    D = descriptor()
    # the record is built the ordinary way; the reference reads plain values
    rec = D(v["n"], v["m"], v["s"], v["t"], v["b"], v["o"])
    ns = selector_ref.namespace(dict(v), grammar.FIELDS, grammar.RECNAME)
    code, subs = selector_ref.compile_ref(a["expr"])
    defined, exp = selector_ref.evaluate(code, subs, ns)
    if not defined:
        return {"reproduced": False, "what": "reference not defined on the concrete values"}
    sel = Selector(a["expr"]) if a["engine"] == "i" else CompiledSelector(a["expr"])
    for rec0 in earlier_records():
        try:
            sel.match(rec0)
        except Exception:  # noqa: BLE001
            pass
    try:
        got = bool(sel.match(rec))
        raised = None
    except Exception as e:  # noqa: BLE001
        got = None
        raised = f"{type(e).__name__}: {e}"
    engine = "Selector" if a["engine"] == "i" else "CompiledSelector"
    if a["mode"] == "raises":
        bad = raised is None
        what = f"{engine}({a['expr']!r}) uses an operator outside the supported language but evaluated to {got} on {v} instead of being rejected"
        key = f"C07/outside/{a['engine']}/{a['expr']}"
    elif a["mode"] == "equal-or-refused":
        bad = raised is None and got != exp
        what = f"{engine}({a['expr']!r}) on {v}: evaluated to {got}, Python meaning: {exp} (the program may be refused, but not evaluated to something else)"
        key = f"C07/{a['engine']}/{a['expr']}"
    else:
        bad = raised is not None or got != exp
        what = f"{engine}({a['expr']!r}) on {v} (after matching a same-name record of another layout and {OTHER}): {'raised ' + raised if raised else got}, Python meaning: {exp}"
        key = f"C07/{a['engine']}/{a['expr']}"
    return {"reproduced": bool(bad), "key": key, "what": what, "input": {"expr": a["expr"], "engine": a["engine"], "values": v}}
