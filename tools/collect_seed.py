#!/venv/bin/python
"""Verify the seeded changes an independent sub-agent left in /tmp/seed-<id> and keep them under /verif/seeded/.

For each seed i: the demo must PASS on the clean scratch worktree, FAIL with the patch applied, and the pinned suite
must still give 444 passed / 7 failed (the baseline's always-failing rdump subprocess tests) with the patch applied.
"""
import json, os, shutil, subprocess, sys

def sh(cmd, cwd=None, env=None):
    p = subprocess.run(cmd, shell=True, cwd=cwd, env=env, capture_output=True, text=True)
    return p.returncode, (p.stdout + p.stderr)

def main(pid, rnd=1):
    wt = f"/tmp/seed-{pid}" if rnd == 1 else f"/tmp/seed-{pid}-r{rnd}"
    env = dict(os.environ, PYTHONPATH=wt)
    kept = []
    for i in (1, 2):  # two seeds per round
        diff, demo, meta = (os.path.join(wt, f"{n}{i}.{e}") for n, e in (("seed", "diff"), ("demo", "py"), ("seed", "json")))
        if not all(os.path.exists(p) for p in (diff, demo)):
            print(pid, i, "missing deliverables"); continue
        sh("git checkout -- flow", cwd=wt)
        rc_clean, out_clean = sh(f"/venv/bin/python {demo}", cwd=wt, env=env)
        rc_apply, out_apply = sh(f"git apply {diff}", cwd=wt)
        if rc_apply != 0:
            print(pid, i, "patch does not apply", out_apply); continue
        rc_mut, out_mut = sh(f"/venv/bin/python {demo}", cwd=wt, env=env)
        _, suite = sh("/venv/bin/python -m pytest -q -p no:cacheprovider --timeout=900 --continue-on-collection-errors 2>&1 | tail -1", cwd=wt, env=env)
        sh("git checkout -- flow", cwd=wt)
        ok = rc_clean == 0 and rc_mut != 0 and "444 passed" in suite and "7 failed" in suite
        print(pid, i, "clean rc", rc_clean, "| mutated rc", rc_mut, "|", suite.strip(), "| KEEP" if ok else "| REJECT")
        if not ok:
            print(out_clean[-300:], out_mut[-300:]); continue
        dst = f"/verif/seeded/{pid}-{i + 2 * (rnd - 1)}"
        os.makedirs(dst, exist_ok=True)
        shutil.copy(diff, os.path.join(dst, "patch.diff"))
        shutil.copy(demo, os.path.join(dst, "demo.py"))
        m = json.load(open(meta)) if os.path.exists(meta) else {}
        m.update({
            "property": pid,
            "origin": "independent sub-agent given only the property text and a scratch worktree",
            "base_commit": subprocess.run("git -C /repo rev-parse HEAD", shell=True, capture_output=True, text=True).stdout.strip(),
            "confirmed": {
                "demo_on_clean_tree": out_clean.strip()[-200:], "demo_with_patch": out_mut.strip()[-400:],
                "suite_with_patch": suite.strip(),
                "how": "tools/collect_seed.py: git apply in the scratch worktree, demo + pinned suite with PYTHONPATH=<worktree>, git checkout",
            },
        })
        json.dump(m, open(os.path.join(dst, "meta.json"), "w"), indent=1)
        kept.append(i)
    return kept

if __name__ == "__main__":
    args = sys.argv[1:]
    rnd = 1
    if args and args[0] == "--round":
        rnd = int(args[1]); args = args[2:]
    for pid in args:
        main(pid, rnd)
