#!/bin/sh
# run every claimed property's thorough tier once, end to end, and print one summary line each (sizing run, not evidence)
cd "$(dirname "$0")/.." || exit 3
for id in ${*:-C01 C02 C03 C04 C05 C06 C08 C09 C10 C11 C12 C14 C15 C16 C17 C18 C07}; do
    s=$(date +%s)
    ./check "$id" --tier thorough > "/tmp/thorough-$id.out" 2> "/tmp/thorough-$id.err"
    rc=$?
    e=$(date +%s)
    echo "== $id rc=$rc wall=$((e - s))s :: $(grep -E "^$id tier" /tmp/thorough-$id.out)"
    grep -E "^VIOLATION|^KNOWN-FINDING|^  violation" "/tmp/thorough-$id.out" | cut -c1-300 | head -5
    grep -c INCONCLUSIVE "/tmp/thorough-$id.err" | sed 's/^/   inconclusive lines: /'
    rm -f "/tmp/thorough-$id.out" "/tmp/thorough-$id.err"
done
