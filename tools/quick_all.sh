#!/bin/sh
# run every claimed property's quick check in /verif against /repo (writes evidence/<id>.json) and print one line each
cd "$(dirname "$0")/.." || exit 3
for id in ${*:-C01 C02 C03 C04 C05 C06 C07 C08 C09 C10 C11 C12 C14 C15 C16 C17 C18}; do
    s=$(date +%s)
    ./check "$id" --tier quick > "/tmp/quick-$id.out" 2> "/tmp/quick-$id.err"
    rc=$?
    e=$(date +%s)
    echo "== $id rc=$rc wall=$((e - s))s :: $(grep -E "^$id tier" /tmp/quick-$id.out | cut -c1-230)"
    grep -E "^VIOLATION|^KNOWN-FINDING|^  violation" "/tmp/quick-$id.out" | cut -c1-200 | head -4
    rm -f "/tmp/quick-$id.out" "/tmp/quick-$id.err"
done
