#!/venv/bin/python
"""Regenerate /verif/MANIFEST.json from the table below (kept in one place so that it stays valid)."""
import json
import os
import subprocess

VERIF = os.path.dirname(os.path.dirname(os.path.abspath(__file__)))
BASELINE = "cd /repo && /venv/bin/python -m pytest -ra -q -p no:cacheprovider --timeout=900 --continue-on-collection-errors"

XH = "bounded symbolic execution of the real functions (CrossHair 0.0.110 + z3), one obligation per structure, values symbolic; counterexamples replayed through the public API"
SMT = "SMT queries (z3, cvc5 cross-check) over terms generated from the repo's AST and live constants"

# id -> (technique, level text, level note, design ref)
CLAIMED = {
    "C10": (
        XH + "; selector modelled as an uninterpreted predicate (N symbolic booleans)",
        "Every reader's real __iter__ is executed symbolically over all 2^N selector outcome vectors (N<=4 quick, 6 thorough) and "
        "Selector/CompiledSelector.match is shown history-independent and side-effect free for all integer/short-string field values of two "
        "records on a list of programs. Bounded model checking is the right level: the filter loops have no value dimension beyond the "
        "outcome vector, which is enumerated completely by the solver.",
        "Trusted: the decoders in front of each filter loop (stubbed to hand out prepared records), CrossHair's path completeness, "
        "selectors over floats/datetimes are outside the bound.",
        "DESIGN.md 3 C10",
    ),
}

CLAIMED["C07"] = (
    XH + "; differential against plain Python evaluation (spec/selector_ref.py), programs enumerated from spec/grammar.py",
    "For every program of the bounded grammar (all predicates with operands of depth <= 1 quick / <= 2 thorough, plus seeded and/or/not "
    "combinations) and each engine, the real Selector / CompiledSelector is executed symbolically over all integers, all strings of <= 2 "
    "characters, both booleans and an optional integer as field values and must agree with Python's evaluation of the same text; programs "
    "using operators outside the engine's tables must be rejected. Programs are enumerated, values are decided by the solver.",
    "Trusted: spec/selector_ref.py as the meaning of the helper functions; field values are injected after construction (checked: the coercing "
    "types define no operators). Outside: floats/true division, case mapping, int->str (hunt-only), records with datetime/path/digest fields, deeper programs.",
    "DESIGN.md 3 C07",
)

CLAIMED["C08"] = (
    XH + "; the finite operator x position x operand-kind x context x engine table is enumerated completely",
    "Every comparison/membership operator with a missing field on either side, against every kind of other operand (literals, and fields whose "
    "values are symbolic), bare and under and/or/not, is executed in both real engines and must be false without raising; the helper functions "
    "must equal their meaning over the present fields; the real RecordStreamReader.__iter__ and record_stream over a mixed stream with real "
    "selectors must yield exactly the matching records for all integer field values. The grammar is finite, so bounded model checking decides it completely.",
    "Outside: 'x in <non-container>', 'not in' in the compiled engine, arithmetic on a missing field. Known findings K1 (compiled '<missing> in <str>') and K6 "
    "(compiled '<missing> in [.., <another missing>]') are listed in known_findings.json. Stream level uses prepared records instead of the msgpack decoder.",
    "DESIGN.md 3 C08",
)
CLAIMED["C09"] = (
    "bounded-exhaustive enumeration of hostile call/attribute shapes executed through the real interpreter under CrossHair (record values symbolic); "
    "oracle = reference classification written from the property text; counterexamples replayed through Selector.match",
    "Every spelling of a call target (name, attribute chain, call result, constant, operator expression, generator variable) to depth 2 (3 thorough) "
    "in 17 syntactic contexts that is not an allowed call must be refused by the real Selector for all values of the record's fields, without any "
    "canary being invoked and without the record changing; every whitelisted helper applied to every field kind leaves the record unchanged. "
    "The property has no value dimension, so the coverage is that of exhaustive enumeration within the depth bound; the evidence says so.",
    "Trusted: the reference classification (allowed = whitelisted helper names, str/repr/any/all/fields, dotted names in the field-type WHITELIST). "
    "Outside: shapes deeper than the bound; the compiled selector (documented as unsafe).",
    "DESIGN.md 3 C09",
)

CLAIMED["C04"] = (
    XH + "; abstract frame model: offsets, body lengths < 2^32, cut position, fault index and short-write size are symbolic integers",
    "The real RecordStreamReader.read is shown, for every frame start, body length < 2^32 and file end, to return the frame's object exactly when "
    "the frame is complete and to leave the position on the next boundary (an inductive step covering streams of any length); the real readheader/__iter__ "
    "over three frames of every kind, present or dropped, yields exactly the complete, decodable record frames for every cut position; the real writer, "
    "with its j-th write call failing short, leaves a prefix of the intended byte sequence. Crash points and fault indexes are symbolic, so every one is covered within the bounds.",
    "Trusted: msgpack refuses a truncated value (validated concretely on every run by truncating real frames at every byte); the length-prefix codec (C02). "
    "Outside: compression layers, a writer that keeps writing after a partially stored frame.",
    "DESIGN.md 3 C04",
)

CLAIMED["C01"] = (
    SMT + " for the big-integer extension codec; " + XH + " for slot order/defaults, address family, typed lists, nested and grouped records over a tree-level msgpack model",
    "The repo-side codec layer of the stream round trip is decided per kernel: unpack(pack(v)) == v for every integer of up to 136 bits (520 thorough) by SMT "
    "queries generated from the AST of pack_obj/unpack_obj (one path per bit length); slot-wise identity of _unpack(_pack()) for all carrier values under both "
    "generated class templates; address family and integer for all 2^32 IPv4 and 2^128 IPv6 addresses; typed lists; nested, record[] and grouped records through "
    "the real pack_obj/unpack_obj/register; path/command flavour and digest members. Bounded model checking fits because each kernel is integer/structure logic "
    "with rare boundary inputs (2^63/2^64 hand-over, 2^32 address boundary).",
    "Trusted: msgpack's byte-level fidelity for its native types (the tree-level model is validated against the real msgpack on every run), pathlib/shlex "
    "normalisation, stdlib ipaddress text rendering. Outside: timestamps (C13), value contents beyond the flavour table.",
    "DESIGN.md 3 C01",
)
CLAIMED["C02"] = (
    SMT + " (length prefix, varint payload, descriptor identifier with sha256 uninterpreted); " + XH + " for the ext-type trees against an independent reference model (spec/wire.py)",
    "The layers of the wire format that are repo-side Python are compared with an independent reference model for all inputs within the bounds: the 4-byte prefix "
    "for every length < 2^32, the big-integer payload for every bit length, the identifier's hash input and byte extraction for unbounded strings and arbitrary "
    "digests, and the trees handed to / accepted from msgpack (record, descriptor, grouped, big integer; extra reserved values, missing version) for all carrier values. "
    "Side conditions (constants, msgpack options, one byte-level battery in both directions against the reference codec) are concrete and reported as such.",
    "Trusted: spec/wire.py as the published format; msgpack's byte-level encoding. Outside: a golden corpus of archived streams (example testing).",
    "DESIGN.md 3 C02",
)

CLAIMED["C03"] = (
    "SMT string query (generated from the AST of calc_descriptor_hash and the real name regex) for identifier-collision witnesses; bounded symbolic "
    "exploration of registry pre-states and write histories (CrossHair closes every path; the concrete part of a path runs the real writers/readers)",
    "For a universe of seven record kinds that contains a solver-found pair with coinciding identifiers, a same-name type, nested holders and (nested) grouped "
    "records, every subset of kinds already emitted x every last-emitted kind x every next kind, and every history of 3 (4 thorough) steps over two writers open at "
    "the same time, is written through the real binary and JSON writers and read back: each record must carry exactly its own descriptor and values. Histories are the "
    "symbolic dimension and are closed exhaustively within the bound; the value dimension is the collision query, decided by the solver over all names <= 6 characters.",
    "Trusted: nothing is stubbed at the stream layer. Outside: collisions of the 32-bit truncation of SHA-256 between different hash inputs; histories longer than the bound.",
    "DESIGN.md 3 C03",
)

CLAIMED["C05"] = (
    XH + "; validators symbolic at the comparison, plumbing path-exhaustive over a candidate table and two-step operation histories",
    "The real range checks of uint16/uint32/boolean/net.ipaddress are decided for all integers (accepted iff representable, stored value equal, rejected calls raise), "
    "the digest setters for every text length and hex-ness including exception safety (a rejected assignment leaves the member as it was), typed lists and bytes over their "
    "argument kinds; Record.__setattr__, the generated constructor, _replace and init_from_dict are run for 14 field types over a candidate table "
    "(valid, boundary, just outside, wrong kind, sibling field type, None) in all two-step histories, with an independent validity predicate per declared type "
    "checked after every step, unchanged state after every rejected step, and serialisability at the end.",
    "Trusted: conversion inside C constructors; the candidate table for content classes the solver cannot reach (digest text with whitespace). Stubs: a2b_hex as a length/hex-ness "
    "model, stdlib ipaddress error messages.",
    "DESIGN.md 3 C05",
)

CLAIMED["C06"] = (
    SMT + ": regex-theory language inclusion over unbounded strings for the accept decision of is_valid_field_name, the type-name pattern and the fieldtype() whitelist guard",
    "The accept decision of the real is_valid_field_name (translated from its AST, with the live compiled regex translated through sre_parse) is shown, for ALL strings, to "
    "accept only ASCII identifiers without leading underscore (plus the trailing-newline slack of '$') and every non-reserved identifier; likewise the type-name pattern "
    "(and that no accepted name contains a double quote) and the guard of fieldtype() (passes iff whitelisted, optionally with '[]'). What a solver cannot decide - "
    "Python's own parser for the newline slack, and the four delivery channels - is covered by replaying solver witnesses and a hostile-payload battery through the "
    "constructor, a crafted descriptor frame, a JSON descriptor line and an Avro schema with an exec-capture tripwire (concrete side condition, reported as such).",
    "Trusted: sre_parse -> z3 regex translation (validated against re on solver-drawn members/non-members every run). A validator rewritten with constructs the translator "
    "does not support (str.isidentifier, rstrip) makes the SMT obligations inconclusive; such changes are then only seen by the concrete payload battery. "
    "Known finding K5 (a field name declared twice is accepted; the suite builds such a descriptor) is listed in known_findings.json.",
    "DESIGN.md 3 C06",
)

CLAIMED["C11"] = (
    XH + " over symbolic leading bytes with stand-in decompressors; " + SMT + " for find_adapter_for_stream (peeked bytes as a z3 string, <= 64 bytes)",
    "The dispatch logic is decided: open_stream's codec choice equals the magic-number table for every byte string of <= 6 leading bytes, with and without peek(), and the "
    "decompressor wraps the object that was peeked; find_adapter_for_stream's avro/stream/none decision for every <= 64-byte prefix (SMT, from the AST and live constants); "
    "open_path's opener/mode for every suffix x mode x clobber x exists x stdio spelling, with every binary read being sniffed; RecordAdapter's URL table. "
    "Only dispatch is claimed: that is where the repo's own logic lives.",
    "Trusted/outside: the codecs themselves (C libraries) and the record content after decompression; replays use the real codecs on real files, stdin included.",
    "DESIGN.md 3 C11",
)

CLAIMED["C12"] = (
    XH + "; carrier fields keep the compared values symbolic through Record.__eq__/_pack/GroupedRecord._pack and the ignored-fields configuration",
    "Equality is decided for all carrier values: a == b iff same descriptor and all non-ignored values equal, symmetric, reflexive, != its negation, never raising, for plain "
    "records under every ignored-field subset, nested records, lists of up to two elements and grouped records of 0..2 members; a scoped override of the ignored-fields "
    "configuration is undone for every outer configuration (non-empty ones included), nesting and raising body. Hashing realises values inside C (hash()), so the hash contract is "
    "explored for counterexamples only on symbolic values and decided path-exhaustively over a table of 24 field types (copy, one-field variation, grouped and nested forms).",
    "Trusted: Python's hash on the packed values. Outside: NaN (rebuilt copies are unequal by Python's ==), value contents beyond the type table.",
    "DESIGN.md 3 C12",
)

CLAIMED["C14"] = (
    "bounded symbolic exploration (CrossHair closes every path) over field type x candidate values of two consecutive records x descriptors on/off x indentation; "
    "the concrete part of a path runs the real JSON writer/reader on files",
    "For 25 JSON-supported field types (scalar and list) and every pair of candidate values (None, empty, boundary, big integers, surrogate escapes) written as two consecutive "
    "records, with descriptors on or off and with or without indentation, the output must be a sequence of standalone JSON documents with exactly the specified keys, must read back "
    "with the same descriptor and deep-equal values (descriptors on), or as json/record records with the same scalar JSON values (descriptors off). Only the mapping layer is "
    "claimed; the choice of case is the symbolic dimension (path-exhaustive), because every value crosses into the C json encoder.",
    "Trusted: the json module (NaN/Infinity, surrogates, big integers). Outside: Windows paths/commands, values beyond the candidate table.",
    "DESIGN.md 3 C14",
)

CLAIMED["C15"] = (
    XH + "; descriptor shapes (which descriptors, in which order, shared or distinct) enumerated by the driver, carrier values and replace/rename flags symbolic",
    "merge_record_descriptors/extend_record over every ordered pair and (seeded quick / all thorough) triple of five descriptors with conflicting field types, with repeated "
    "positions both as distinct and as one shared descriptor; iter_timestamped_records over records of up to three fields from a pool of six in every order with one datetime unset; "
    "GroupedRecord flat view, members and _replace at flat and member level; RecordFieldRewriter over every projection list x exclusion subset and Record._replace - each compared, "
    "for all integer carrier values and both flags, with a dictionary reference model written from the statement (field order, first/last wins for value and type, originals untouched, "
    "metadata kept).",
    "Trusted: the reference model in harness/C15.py. Outside: descriptors with more than three fields, datetime values (concrete instants), coercion of typed values (C05).",
    "DESIGN.md 3 C15",
)

CLAIMED["C16"] = (
    XH + "; the real rdump.main and record_stream run with stand-in reader/writer, skip/count and the selector's outcome vector symbolic; "
    "option sets and fault placements enumerated by the driver",
    "For every placement of clean / failing / unopenable sources over two sources (three: seeded quick, all thorough), every option set of the table (-F x -X x metadata overrides x "
    "--multi-timestamp over an input with two descriptors of one name), list mode and five real selector texts in both engines, the records handed to the writer equal the reference "
    "pipeline (filter, then slice, then overrides, projection, expansion) for ALL skip/count in [0, N+2], all selector outcome vectors and all integer carrier values, and the writer is "
    "released exactly once. The writer-URI table and an end-to-end battery over real files, compressions and output modes are concrete side conditions and reported as such.",
    "Trusted: the reference pipeline in harness/C16.py; stand-ins: reader (prepared records, then the fault), writer (collects), islice (generator model), argparse run untraced on the "
    "concrete argv. Outside: real sources and writers (own properties), negative skip/count, -E. Known finding K4 (projection applied again by csv/text/line writers after "
    "--multi-timestamp) is listed in known_findings.json.",
    "DESIGN.md 3 C16",
)

CLAIMED["C17"] = (
    XH + " for the writers' state machines (inductive step of SplitWriter.write, bounded runs, call histories per adapter on stand-in sinks, PathTemplateWriter over a dictionary "
    "file system); " + SMT + " (string theory) for the part-name suffix of SplitWriter._next_path",
    "SplitWriter.write keeps 0 <= written < count and rotates exactly at the limit for ALL written/count; runs of N <= 6 (12) writes with symbolic N and count give parts that are "
    "full, closed, never re-opened and concatenate to the input; the suffix expression taken from the AST equals the zero-padded decimal for every part index (unbounded); every "
    "history of K <= 4 (5) write/flush/close/exit calls on the stream, JSON, Avro (all spontaneous-flush patterns), SQLite, CSV, line, text and split writers leaves everything written "
    "in the sink with the sink closed, and an empty stream/JSON/Avro/SQLite output is valid; PathTemplateWriter puts each of 3 (4) records of every bucket order, with every subset of "
    "pre-existing targets and a same-second or ticking clock, into the file its template names, never opening an existing file for writing and never renaming onto an existing name. "
    "A sweep of all histories K <= 3 on real files with the real libraries validates the stand-ins (concrete side condition).",
    "Stand-ins: sinks, fastavro block writer, sqlite3 connection, sub-writers, dictionary file system, clock. Outside: durability, compression layers, writes after close. "
    "Known finding K3 (stream writer closed before any flush leaves a 0-byte file; pinned by the suite) is listed in known_findings.json.",
    "DESIGN.md 3 C17",
)

CLAIMED["C18"] = (
    XH + " against a statement-level model of sqlite3.Connection (explicit BEGIN/COMMIT, visibility at COMMIT, CREATE/PRAGMA/ALTER/INSERT/SELECT); " + SMT
    + " (regex theory) for the name filter of SqliteReader.table_names and the identifier quoting",
    "SqliteWriter.write is decided as an inductive step for ALL record counts with batch sizes 1..8 and with a symbolic batch size: one INSERT inside a transaction, a commit before the "
    "first record of a new descriptor and after every batch_size-th record, a transaction open afterwards; histories of 3 (4) records over six descriptors (same name grown / swapped / "
    "shrunk, other names, a name differing by case) x batch sizes 1..4 x an explicit flush show that what another connection can see after each write is exactly the rows up to the "
    "reference commit point, that after close every record is a committed row with its own values in write order, and that each table's columns are the union of the fields seen; the "
    "bound values of db_insert_record equal the reference mapping over 18 x 18 value kinds; the reader returns every row of every table once, in order, for every reader batch size; "
    "no valid type name is rejected by table_names' WHERE clause and no valid name contains a double quote (all strings). Batteries through the real sqlite3 with an observer connection "
    "and hostile names are concrete side conditions.",
    "Stand-in: FakeCon / ReadCon (statements the model does not know make the obligation inconclusive). Outside: SQLite's type affinity/storage, real isolation (replayed), duckdb. "
    "Known finding K7 (type names differing in case only share one table) is listed in known_findings.json.",
    "DESIGN.md 3 C18",
)

# additions made while strengthening against seeded changes (DESIGN.md 9.1), appended to the level text
EXTRA = {
    "C01": " Sequences: every history of 3 (4) records over 21 record kinds (C03's two universes - colliding identifiers, same-name types, holders, grouped records of equal "
    "flat layout, look-alike type names observed by the name they were created with, a write failing while packing - plus typed rows incl. UTC offsets with seconds) in ONE "
    "stream reads back as the same sequence (history symbolic, path-exhaustive).",
    "C02": " Sequences of 3 (4) records over 17 record kinds in one stream are decoded by the independent reference codec to exactly the records written, every identifier announced "
    "by an earlier descriptor frame (history symbolic, path-exhaustive).",
    "C03": " A second universe of nine kinds (grouped records with equal group name and flat layout but different member types, type names differing only in '/' vs '_', a write "
    "that fails while packing followed by good records of that type) is explored the same way.",
    "C06": " A solver-built unacceptable definition whose identifier input coincides with that of a registered legitimate descriptor must still be refused when it arrives after it "
    "(stream and JSON channel).",
    "C07": " A typed family (76 helper / comparison / membership programs over ipaddress v4/v6, ipnetwork, uri, path, string[], bytes, float, command and filesize fields) and programs "
    "with several generator expressions (sequential reuse of a loop variable must evaluate; nested re-binding may be refused but never mis-evaluated) are decided the same way; every "
    "program is evaluated by a selector object that matched a same-name record of another layout before.",
    "C08": " The other operand also ranges over typed field matchers and fields of 23 field types (8 operators x both positions x both engines), and every selector object has matched "
    "a same-name record that HAS the fields before; mixed streams also carry both layouts under one type name in both orders.",
    "C09": " Generators consumed by membership tests, if clauses and comprehensions are among the contexts; every allowed callee (helpers, builtins, every whitelisted field-type "
    "constructor) is handed callables reached through attributes in 8 argument placements and must invoke nothing and leave the record unchanged; purity programs apply operators to "
    "list-valued fields.",
    "C10": " One selector object meets histories of 3 (4) records over 7 kinds (layouts sharing a type name, grouped records of different composition, a nested holder) x 15 programs: "
    "every verdict equals that of a fresh selector; the real SqliteReader.read_table pagination runs under the uninterpreted selector for every reader batch size.",
    "C11": " open_path's choice of opener is additionally decided by SMT for ALL path strings (translated from its AST with the environment calls as opaque stand-ins). RecordStreamReader.readheader's accept decision (SMT from its AST): accepted implies the magic at offset 6 of the header frame; two writers open at the same time over "
    "every codec pair and every schedule of 4 interleaved writes, and two readers open at the same time over every codec pair, naming and schedule, read back their own records (real codecs, schedule symbolic).",
    "C12": " The ignored-fields configuration is also applied to grouped and nested records (symbolic ignore bits).",
    "C15": " One RecordFieldRewriter serves two layouts of one type name in both arrival orders; GroupedRecord._replace is replayed at member level.",
    "C16": " A real --split battery (more parts than the suffix length can number) is a further concrete side condition.",
}

NOT_APPLICABLE = {
    "C13": "every operation the property constrains (datetime construction/arithmetic, fromisoformat, zoneinfo, fastavro/sqlite3 conversions) is C code; "
    "CrossHair realises each datetime component at the C constructor and the repo-side logic is two value-free ifs, so no value-level case would be decided by the solver (DESIGN.md 6)",
    "C19": "value fidelity and refusal of out-of-range values happen inside fastavro's compiled schema validation and binary encoder; the repo side is a static type table "
    "with no input domain for a solver (DESIGN.md 6)",
    "C20": "quoting and rendering are done by the C csv module and str()/repr()/format(), where CrossHair realises every symbolic value; the remaining header logic has only a handful "
    "of booleans as input (DESIGN.md 6)",
}

PENDING = "check under construction in this session (design in DESIGN.md 3); not claimed until its quick check runs clean"


def main():
    props = [json.loads(l) for l in open(os.path.join(VERIF, "properties.jsonl"))]
    checks = []
    na = []
    for p in props:
        pid = p["id"]
        if pid in CLAIMED and os.path.exists(os.path.join(VERIF, "harness", pid + ".py")):
            tech, text, note, ref = CLAIMED[pid]
            text = text + EXTRA.get(pid, "")
            checks.append(
                {
                    "property_id": pid,
                    "quick_cmd": f"./check {pid} --tier quick",
                    "thorough_cmd": f"./check {pid} --tier thorough",
                    "evidence_file": f"/verif/evidence/{pid}.json",
                    "replay_cmd_template": f"./check {pid} --replay {{path}}",
                    "engine": "xh+smt",
                    "level_claimed": {"category": "model_checking", "text": text, "design_ref": ref},
                    "level_note": note,
                    "technique": tech,
                }
            )
        elif pid in NOT_APPLICABLE:
            na.append({"property_id": pid, "reason": NOT_APPLICABLE[pid]})
        else:
            na.append({"property_id": pid, "reason": PENDING})
    hooks = subprocess.run("git -C /repo log --format=%H --grep='^hook:' ", shell=True, capture_output=True, text=True).stdout.split()
    manifest = {
        "version": 1,
        "setup_cmd": "sh ./setup.sh",
        "hooks": {
            "guard": "FLOW_RECORD_VERIF",
            "enable": "none needed: no source hooks were added; every stand-in is installed by the harness from outside",
            "baseline_off_cmd": BASELINE,
            "source_commits": hooks,
            "add_only": True,
        },
        "engines": [
            {
                "name": "xh",
                "path": "/verif/vf (runner) + /verif/harness (obligations) on CrossHair 0.0.110 / z3 from the offline wheelhouse",
                "serves_properties": sorted(CLAIMED),
                "kind_free_text": "symbolic execution of the real Python functions; inputs, outcome vectors, histories and cut points are symbolic variables; "
                "'Confirmed over all paths' = holds for every value within the stated bounds",
            },
            {
                "name": "smt",
                "path": "/verif/vf/smt",
                "serves_properties": [p for p in sorted(CLAIMED) if p in ("C01", "C02", "C03", "C06", "C11", "C17", "C18")],
                "kind_free_text": "z3 (cross-checked with cvc5) on bit-vector / string / regex terms generated from the repo's AST on every run",
            },
        ],
        "checks": checks,
        "not_applicable": na,
        "notes": "Solver-based checking only. Genuine defects found are repaired in /repo as 'fix:' commits and listed in known_findings.json (status fixed); "
        "findings that cannot be repaired within the rules are listed there with status known. See DESIGN.md.",
    }
    json.dump(manifest, open(os.path.join(VERIF, "MANIFEST.json"), "w"), indent=1)
    print("claimed", [c["property_id"] for c in checks], "n/a", [n["property_id"] for n in na])


if __name__ == "__main__":
    main()
