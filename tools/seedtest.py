#!/venv/bin/python
"""Self-test: run a property's check against scratch copies of /repo with one seeded change applied.

usage: tools/seedtest.py [--tier quick] [--pinned] <seed-id|property-id> ...
  seed-id      = directory name under /verif/seeded (e.g. C10-1) or /verif/mutants/<name>.diff
  property-id  = all seeds of that property
  --pinned     = additionally run the property's check against the originally pinned commit (all anticipated defects present)

The scratch worktree lives under $TMPDIR and is removed afterwards. Expected outcome per seed: exit status 1 with a VIOLATION line.
"""
import glob
import json
import os
import subprocess
import sys
import tempfile
import time

VERIF = os.path.dirname(os.path.dirname(os.path.abspath(__file__)))
PINNED = "69a5132"


def run(cmd, **kw):
    return subprocess.run(cmd, shell=True, capture_output=True, text=True, **kw)


def check_tree(pid, patch, tier, rev="HEAD", extra=""):
    d = tempfile.mkdtemp(prefix="vf-seed-")
    os.rmdir(d)
    try:
        r = run(f"git -C /repo worktree add -q --detach {d} {rev}")
        if r.returncode:
            return None, r.stderr
        if patch:
            r = run(f"git -C {d} apply {patch} || git -C {d} apply --3way {patch}")
            if r.returncode:
                return None, "patch does not apply: " + r.stderr
        t = time.time()
        r = run(f"VERIF_REPO={d} ./check {pid} --tier {tier} {extra}", cwd=VERIF)
        return r.returncode, r.stdout + r.stderr[-1500:] + f"\n[{time.time() - t:.0f}s]"
    finally:
        run(f"git -C /repo worktree remove --force {d}")


def main():
    args = sys.argv[1:]
    tier = "quick"
    pinned = False
    on_base = False  # --base: apply each seed to the commit it was written for instead of HEAD (a later fix may have neutralised it)
    extra = ""
    ids = []
    while args:
        a = args.pop(0)
        if a == "--tier":
            tier = args.pop(0)
        elif a == "--pinned":
            pinned = True
        elif a == "--base":
            on_base = True
        elif a == "--only":
            import shlex

            extra = "--only " + shlex.quote(args.pop(0))
        else:
            ids.append(a)
    seeds = []
    as_prop = {}
    for n, i in enumerate(list(ids)):
        if "@" in i:  # C01-4@C03: run C03's check against seed C01-4
            sid, _, other = i.partition("@")
            ids[n] = sid
            as_prop[sid] = other
    for i in ids:
        if i.startswith("PINNED:"):
            seeds.append(i)
        elif os.path.isdir(os.path.join(VERIF, "seeded", i)):
            seeds.append(i)
        else:
            seeds += sorted(os.path.basename(p) for p in glob.glob(os.path.join(VERIF, "seeded", i + "-*")))
            if pinned:
                seeds.append("PINNED:" + i)
    summary = []
    for s in seeds:
        if s.startswith("PINNED:"):
            pid = s.split(":")[1]
            rc, out = check_tree(pid, None, tier, rev=PINNED, extra=extra)
        else:
            meta = json.load(open(os.path.join(VERIF, "seeded", s, "meta.json")))
            pid = as_prop.get(s, meta["property"])
            rc, out = check_tree(pid, os.path.join(VERIF, "seeded", s, "patch.diff"), tier, rev=(meta.get("base_commit") or "HEAD") if on_base else "HEAD", extra=extra)
            if rc is None and "does not apply" in (out or "") and meta.get("base_commit"):
                # the repository moved on under the seed (a later fix touches the same lines): test it on the commit it was written for
                rc, out = check_tree(pid, os.path.join(VERIF, "seeded", s, "patch.diff"), tier, rev=meta["base_commit"], extra=extra)
                out = f"(applied to its base commit {meta['base_commit'][:7]})\n" + (out or "")
        lines = [l for l in (out or "").splitlines() if l.startswith(("VIOLATION", "KNOWN-FINDING", "  violation", pid + " tier"))]
        verdict = "DETECTED" if rc == 1 and any(l.startswith("VIOLATION") for l in lines) else f"MISSED (rc={rc})"
        print(f"== {s}: {verdict}")
        for l in lines[:8]:
            print("   ", l[:300])
        if rc not in (0, 1):
            print(out[-1500:])
        summary.append((s, verdict))
    print("\nSUMMARY")
    for s, v in summary:
        print(f"  {s:12s} {v}")


if __name__ == "__main__":
    main()
