#!/bin/sh
# run the pinned baseline suite of /repo (or $1) and print the summary line
cd "${1:-/repo}" && /venv/bin/python -m pytest -q -p no:cacheprovider --timeout=900 --continue-on-collection-errors 2>&1 | tail -1
