#!/venv/bin/python
"""Write the prompt for an independent 'seeding' sub-agent: only the property text and the location of its own scratch worktree.
usage: tools/seedprompt.py <round> <property-id>...   -> /tmp/seedprompts/<id>-r<round>.txt (and the worktree /tmp/seed-<id>-r<round>)"""
import json
import os
import subprocess
import sys

T = '''You are helping to evaluate a verification effort for the open-source Python library fox-it/flow.record (typed records, a msgpack-based record stream format, JSON/CSV/Avro/SQLite adapters, and the "rdump" selector query language). Your job is to play the role of a developer who makes a plausible but WRONG change to the library: a change that breaks one specific semantic property while everything still imports and the existing test suite still passes.

Your own scratch git worktree of the repository is at {wt} . Work ONLY inside that directory (and /tmp/seedwork-{pid}-r{rnd} for temporary files, which you remove at the end). Do NOT touch /repo or /verif, do not read anything under /verif, and do not commit anything. Never use "git stash" (the stash is shared between worktrees of the same repository): to get back to the clean tree use "git -C {wt} checkout -- flow", to re-apply a change use "git apply".

How to run code against your worktree (the library is installed elsewhere in editable mode, so you must put your worktree first on the path):
  cd {wt} && PYTHONPATH={wt} /venv/bin/python -c "import flow.record; print(flow.record.__file__)"     # must print a path under {wt}
How to run the existing test suite (takes ~10 s); on the untouched tree it ends with "7 failed, 444 passed" - those 7 failures (tests that shell out to an "rdump" executable that is not on PATH) are expected and must stay exactly those 7:
  cd {wt} && PYTHONPATH={wt} /venv/bin/python -m pytest -q -p no:cacheprovider --timeout=900 --continue-on-collection-errors 2>&1 | tail -12
There is no network access.

THE PROPERTY (id {pid}: {title}):
  Statement: {statement}
  Quantified over: {qtext}
  Code it is anchored in: {files}

YOUR TASK: produce TWO independent changes (two different mechanisms / code sites) to the library source under {wt}/flow/ , each of which:
  1. breaks the property above (makes the library violate the statement for some input / history / configuration);
  2. still imports, and still passes the existing test suite exactly as before (same 444 passed, same 7 failed) - verify this yourself;
  3. needs something SPECIFIC to manifest - a boundary value, an unusual but legal input, a particular multi-step sequence of operations, a crash or fault at a particular point, a particular interleaving, a particular combination of options, or two cooperating code sites that each look fine alone. Do NOT produce a change that ordinary use would expose at once (e.g. breaking every record, every call). Think of realistic developer mistakes: an off-by-one, a wrong operator at a boundary, a "harmless" refactoring, an optimisation/cache with a stale key, a swapped argument that only matters for some types, a missed case in a branch, state that survives from one call to the next, cleanup that is skipped on an error path.
  4. is small (a few lines to a few dozen) and looks like something that could pass code review.
Make the two changes as different from each other as you can (different files or different clauses of the statement), and prefer the less obvious clauses of the statement over the first one that comes to mind.
For each change also write a demonstration: a small stand-alone Python program that exits 0 and prints "PASS" when the property holds for its scenario and exits 1 printing "FAIL: <what went wrong>" when it does not. It must FAIL with your change applied and PASS on the untouched tree. The demo should use only the public behaviour of the library (and temp files where needed) and must take the library from PYTHONPATH.

DELIVERABLES - create these files in {wt}/ (the worktree root), then restore the source tree:
  seed1.diff, seed2.diff   - each produced with "git -C {wt} diff -- flow" with ONLY that one change applied (apply one, save diff, "git -C {wt} checkout -- flow", apply the other, save diff). Each diff must apply cleanly on its own with "git apply" to the untouched tree.
  demo1.py, demo2.py        - the demonstrations.
  seed1.json, seed2.json    - {{"property": "{pid}", "summary": "<one sentence: what was changed>", "needs": "<what specific input/sequence/condition is needed for it to manifest>", "files": ["<changed files>"]}}
Before finishing, for each i: check out the clean tree, confirm demo_i PASSes; apply seed_i.diff, confirm demo_i FAILs and the suite still gives 444 passed / the same 7 failed; then "git -C {wt} checkout -- flow" so that the worktree's tracked files are clean again (leave only the six new untracked files).
In your final answer, report for each seed: the summary, what it needs to manifest, and the exact outputs you observed (demo on clean tree, demo with change, test-suite summary line with change).'''


def main():
    rnd = int(sys.argv[1])
    os.makedirs("/tmp/seedprompts", exist_ok=True)
    props = {json.loads(l)["id"]: json.loads(l) for l in open(os.path.join(os.path.dirname(os.path.dirname(os.path.abspath(__file__))), "properties.jsonl"))}
    for pid in sys.argv[2:]:
        p = props[pid]
        wt = f"/tmp/seed-{pid}-r{rnd}"
        if not os.path.isdir(wt):
            subprocess.run(f"git -C /repo worktree add -q --detach {wt} HEAD", shell=True, check=True)
        text = T.format(wt=wt, pid=pid, rnd=rnd, title=p["title"], statement=p["statement"], qtext=p["quantifier"]["text"], files=", ".join(p["anchors"]["files"]))
        open(f"/tmp/seedprompts/{pid}-r{rnd}.txt", "w").write(text)
        print(pid, wt, len(text))


if __name__ == "__main__":
    main()
