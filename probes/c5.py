import z3, subprocess, time
# dump a z3 query to SMT-LIB2 and solve with cvc5 python API
v = z3.BitVec("v", 64); s = z3.Solver(); s.add(z3.ULT(v, 256), ((v << 8) >> 8) != v)
smt = "(set-logic ALL)\n" + s.to_smt2()
import cvc5
slv = cvc5.Solver(); 
ip = cvc5.InputParser(slv); ip.setStringInput(cvc5.InputLanguage.SMT_LIB_2_6, smt, "q"); sm = ip.getSymbolManager()
res = None
while True:
    cmd = ip.nextCommand()
    if cmd.isNull(): break
    out = cmd.invoke(slv, sm)
    if out.strip(): res = out.strip()
print("cvc5:", res, "z3:", s.check())
x = z3.String("x"); s2 = z3.Solver(); s2.add(z3.InRe(x, z3.Concat(z3.Range("a","z"), z3.Star(z3.Range("a","z")))), z3.Not(z3.InRe(x, z3.Plus(z3.Range("a","z")))))
smt = "(set-logic ALL)\n" + s2.to_smt2()
slv = cvc5.Solver(); slv.setOption("strings-exp", "true")
ip = cvc5.InputParser(slv); ip.setStringInput(cvc5.InputLanguage.SMT_LIB_2_6, smt, "q"); sm = ip.getSymbolManager()
while True:
    cmd = ip.nextCommand()
    if cmd.isNull(): break
    out = cmd.invoke(slv, sm)
    if out.strip(): res = out.strip()
print("cvc5 re:", res, "z3:", s2.check())
