import prelude, types
import flow.record.stream as S
from flow.record.stream import RecordStreamReader

class Chunk:
    """abstract byte string: `n` bytes of the stream starting at offset `off`"""
    def __init__(self, off, n): self.off = off; self.n = n
    def __len__(self): return self.n

class AbsFile:
    """stream = frames back to back; frame i occupies [o_i, o_i+4+L_i); file is cut at `limit`"""
    def __init__(self, pos, limit): self.pos = pos; self.limit = limit
    def read(self, n):
        avail = self.limit - self.pos
        take = n if avail >= n else avail
        c = Chunk(self.pos, take); self.pos += take
        return c

class FrameError(Exception): pass

def one_read(o: int, L: int, limit: int) -> bool:
    """
    pre: 0 <= o <= limit and 0 <= L < 2**32
    post: _
    """
    # the frame starting at o has body length L (writer wrote be32(L) at o, then L body bytes)
    def unpack_len(fmt, chunk):
        assert fmt == ">I"
        if len(chunk) != 4: raise S.struct.error("short")
        assert chunk.off == o
        return (L,)
    class Packer:
        def unpack(self, chunk):
            if chunk.off == o + 4 and len(chunk) == L:
                return ("OBJ", o)
            raise FrameError("incomplete msgpack value")   # prefix-freeness of msgpack
    real_struct = S.struct
    S.struct = types.SimpleNamespace(unpack=unpack_len, pack=real_struct.pack, error=real_struct.error)
    try:
        rd = object.__new__(RecordStreamReader)
        rd.fp = AbsFile(o, limit); rd.packer = Packer()
        complete = limit >= o + 4 + L
        try:
            obj = rd.read()
        except (EOFError, FrameError, real_struct.error):
            return not complete
        return complete and obj == ("OBJ", o) and rd.fp.pos == o + 4 + L
    finally:
        S.struct = real_struct
