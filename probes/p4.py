import prelude
from flow.record import RecordDescriptor
from flow.record import fieldtypes as ft

D = RecordDescriptor("test/rec", [("uint16", "p"), ("uint32", "q"), ("boolean", "b"), ("varint", "n")])

def assign_u16(v: int) -> bool:
    """
    post: _
    """
    rec = D(1, 2, 1, 3)
    try:
        rec.p = v
    except ValueError:
        return (v < 0 or v > 0xFFFF) and rec.p == 1
    return 0 <= v <= 0xFFFF and rec.p == v and isinstance(rec.p, ft.uint16) and rec.p._pack() == v

def init_u16(v: int) -> bool:
    """
    post: _
    """
    obj = int.__new__(ft.uint16, 0)
    try:
        ft.uint16.__init__(obj, v)
    except ValueError:
        return (v < 0 or v > 0xFFFF)
    return 0 <= v <= 0xFFFF and obj.value == v
