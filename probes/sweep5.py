import warnings; warnings.simplefilter("ignore")
import os, tempfile, shutil, sqlite3, datetime as dt
from flow.record import RecordDescriptor, RecordWriter, RecordReader
UTC = dt.timezone.utc
tmp = tempfile.mkdtemp(); problems = []
A = RecordDescriptor("my/type_a", [("string", "s"), ("varint", "n"), ("float", "f"), ("bytes", "b"), ("datetime", "t"), ("boolean", "ok"), ("uint32", "u"), ("path", "p")])
A2 = RecordDescriptor("my/type_a", [("string", "s"), ("varint", "n"), ("string", "extra")])
B = RecordDescriptor("other", [("string", "select"), ("string", "from")])
recs = [A("x", 1, 1.5, b"\x00\xff", dt.datetime(2020, 1, 2, 3, 4, 5, 6, tzinfo=UTC), True, 7, "/a"), A(None, None, None, None, None, None, None, None),
        A("é\udc80"[:1], -2**63, -0.0, b"", dt.datetime(1969, 12, 31, tzinfo=dt.timezone(dt.timedelta(hours=2))), False, 2**32 - 1, ""), A2("y", 2, "e"), B("kw", "kw2"), A("z", 2**63 - 1, 1e308, b"a", dt.datetime(9999, 12, 31, tzinfo=UTC), True, 0, "b")]
def content(p):
    con = sqlite3.connect(p); out = {}
    for (name,) in con.execute("select name from sqlite_master where type='table'"):
        out[name] = [tuple(r) for r in con.execute(f'select * from "{name}"')]
    return out
ref = None
for bs in (1, 2, 3, 5, 1000):
    p = os.path.join(tmp, f"b{bs}.db")
    w = RecordWriter(f"sqlite://{p}?batch_size={bs}")
    seen_counts = []
    for i, r in enumerate(recs):
        w.write(r)
        c = content(p); seen_counts.append(sum(len(v) for v in c.values()))
    w.close()
    c = content(p)
    c = {k: [tuple(x for j, x in enumerate(row)) for row in v] for k, v in c.items()}
    strip = {k: [row[:-3] + row[-1:] for row in v] for k, v in c.items()}  # drop _generated-ish? keep simple
    if ref is None: ref = c
    else:
        # compare ignoring _generated column
        def norm(cc): return {k: [tuple(x for x in row if not (isinstance(x, str) and x.startswith("2026-"))) for row in v] for k, v in cc.items()}
        if norm(c) != norm(ref): problems.append(("batch-dependent", bs))
    print("batch", bs, "visible row counts after each write:", seen_counts, "final", {k: len(v) for k, v in c.items()})
    try:
        got = list(RecordReader(f"sqlite://{p}"))
        print("  read back", len(got), [r._desc.name for r in got])
        a_rows = [r for r in got if r._desc.name == "my/type_a"]
        print("  ", [(r.s, r.n, r.f, r.b, str(r.t), r.ok, r.u, str(r.p)) for r in a_rows][:3])
    except Exception as e: print("  READ EXC", type(e).__name__, e)
shutil.rmtree(tmp); print(problems)
