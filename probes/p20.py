import prelude, warnings
warnings.simplefilter("ignore")
from typing import Optional
from flow.record import RecordDescriptor, extend_record
import flow.record.base as B

NAMES = ["a", "b", "c", "ts"]
TYPES = ["record", "dynamic"]   # 'record' = carrier; 'dynamic' differs as a *type name*
_DESC = {}
def desc(name, fields):
    key = (name, tuple(fields))
    if key not in _DESC:
        _DESC[key] = RecordDescriptor(name, list(fields))
    return _DESC[key]

def build(code: int, nm: str):
    """decode a record shape: up to 2 fields; code digits pick (name, type) of each field; distinct names"""
    n1 = code % 4; t1 = (code // 4) % 2; has2 = (code // 8) % 2; n2 = (code // 16) % 4; t2 = (code // 64) % 2
    fields = [(TYPES[0], NAMES[n1])]          # keep carriers as value type; type NAME varies through a second descriptor below
    tn = [TYPES[t1]]
    if has2 and n2 != n1:
        fields.append((TYPES[0], NAMES[n2])); tn.append(TYPES[t2])
    return fields, tn

def ext(c1: int, c2: int, replace: bool, v1: int, v2: int, w1: int, w2: int) -> bool:
    """
    post: _
    """
    if not (0 <= c1 < 128 and 0 <= c2 < 128):
        return True
    f1, _ = build(c1, "x/one"); f2, _ = build(c2, "x/two")
    d1 = desc("x/one", f1); d2 = desc("x/two", f2)
    vals1 = [v1, v2][: len(f1)]; vals2 = [w1, w2][: len(f2)]
    r1 = d1(*vals1); r2 = d2(*vals2)
    before = (r1._pack(), r2._pack())
    out = extend_record(r1, [r2], replace=replace)
    # reference model
    order = []; val = {}
    for (t, n), v in list(zip(f1, vals1)) + list(zip(f2, vals2)):
        if n not in order:
            order.append(n); val[n] = v
        elif replace:
            val[n] = v
    got_fields = [n for _, n in out._desc.get_field_tuples()]
    ok = got_fields == order and out._desc.name == "x/one"
    for n in order:
        g = getattr(out, n)
        if not (g == val[n]):
            ok = False
    return ok and (r1._pack(), r2._pack()) == before
