import warnings; warnings.simplefilter("ignore")
import itertools, datetime as dt
from flow.record import RecordDescriptor, GroupedRecord, extend_record, iter_timestamped_records
from flow.record.stream import RecordFieldRewriter
UTC = dt.timezone.utc
NAMES = ["a", "b", "ts", "ts_description"]
TYPES = ["string", "varint", "datetime"]
def val(t, i):
    return {"string": f"s{i}", "varint": i, "datetime": dt.datetime(2000 + i, 1, 1, tzinfo=UTC)}[t]
def shapes(maxf):
    for k in range(1, maxf + 1):
        for names in itertools.permutations(NAMES, k):
            for types in itertools.product(TYPES, repeat=k):
                if any(n == "ts_description" and t != "string" for n, t in zip(names, types)): pass
                yield list(zip(types, names))
problems = []; n = 0
S = list(shapes(2))
# extend_record
cnt = 0
for f1 in S:
    for f2 in S:
        for replace in (False, True):
            cnt += 1
            d1 = RecordDescriptor("x/one", f1); d2 = RecordDescriptor("x/two", f2)
            v1 = [val(t, i + 1) for i, (t, _) in enumerate(f1)]; v2 = [val(t, i + 11) for i, (t, _) in enumerate(f2)]
            r1 = d1(*v1); r2 = d2(*v2); before = (r1._pack(), r2._pack())
            order = []; typ = {}; value = {}
            for (t, nme), v in list(zip(f1, v1)) + list(zip(f2, v2)):
                if nme not in order: order.append(nme); typ[nme] = t; value[nme] = v
                elif replace: typ[nme] = t; value[nme] = v
            try:
                out = extend_record(r1, [r2], replace=replace)
            except Exception as e:
                problems.append(("extend EXC", f1, f2, replace, type(e).__name__, str(e)[:60])); continue
            got = [(t, nme) for t, nme in out._desc.get_field_tuples()]
            if got != [(typ[x], x) for x in order] or any(getattr(out, x) != value[x] for x in order) or (r1._pack(), r2._pack()) != before:
                problems.append(("extend DIFF", f1, f2, replace, got, [getattr(out, x) for x in order]))
# iter_timestamped_records
for f in shapes(3):
    d = RecordDescriptor("x/ts", f); v = [val(t, i + 1) for i, (t, _) in enumerate(f)]
    rec = d(*v)
    dts = [nme for t, nme in f if t == "datetime"]
    try: outs = list(iter_timestamped_records(rec))
    except Exception as e:
        problems.append(("ts EXC", f, type(e).__name__, str(e)[:80])); continue
    if not dts:
        if outs != [rec]: problems.append(("ts none", f))
        continue
    if len(outs) != len(dts): problems.append(("ts count", f, len(outs))); continue
    for o, nme in zip(outs, dts):
        if o.ts_description != nme or o.ts != getattr(rec, nme): problems.append(("ts value", f, nme, str(o.ts), o.ts_description))
        for t, x in f:
            if x in ("ts", "ts_description"): continue
            if getattr(o, x, "MISSING") != getattr(rec, x): problems.append(("ts keep", f, nme, x))
print(cnt, "extend cases;", len(problems), "problems")
seen = set()
for p in problems:
    k = (p[0],) + tuple(str(x) for x in p[1:3])
    print(p)
    if len(seen) > 25: break
    seen.add(k)
