import prelude, warnings, types
warnings.simplefilter("ignore")
import flow.record.fieldtypes as FT
import binascii

HEX = "0123456789abcdefABCDEF"
def model_a2b_hex(s):
    if isinstance(s, bytes): s = s.decode("ascii")
    if len(s) % 2 != 0: raise binascii.Error("Odd-length string")
    out = []
    for i in range(0, len(s), 2):
        hi, lo = s[i], s[i + 1]
        if hi not in HEX or lo not in HEX: raise binascii.Error("Non-hexadecimal digit found")
        out.append(0)
    return bytes(len(out))
FT.a2b_hex = model_a2b_hex

def md5_setter(val: str, prev_ok: bool) -> bool:
    """
    post: _
    """
    if len(val) > 34:
        return True
    d = FT.digest()
    if prev_ok:
        d.md5 = "00" * 16
    before = (d.md5, d._pack())
    try:
        d.md5 = val
    except TypeError:
        ok_reject = not (len(val) == 32 and all(c in HEX for c in val))
        return ok_reject and (d.md5, d._pack()) == before
    return len(val) == 32 and d.md5 == val
