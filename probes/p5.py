import prelude
import ipaddress as ipa
from flow.record.fieldtypes.net.ip import ipaddress as F

def rt_v6(v: int) -> bool:
    """
    pre: 0 <= v < 2**128
    post: _
    """
    a = F.__new__(F)
    a.val = ipa.IPv6Address(v)
    packed = a._pack()
    b = F._unpack(packed)
    return b.val.version == 6 and int(b.val) == v

def rt_v4(v: int) -> bool:
    """
    pre: 0 <= v < 2**32
    post: _
    """
    a = F.__new__(F)
    a.val = ipa.IPv4Address(v)
    packed = a._pack()
    b = F._unpack(packed)
    return b.val.version == 4 and int(b.val) == v
