import prelude, warnings, types, datetime as dt
warnings.simplefilter("ignore")
import flow.record.stream as S
from flow.record import RecordDescriptor

D = RecordDescriptor("t/arch", [("varint", "n")])
UTC = dt.timezone.utc
BUCKETS = [dt.datetime(2020, 1, 1, 0, tzinfo=UTC), dt.datetime(2020, 1, 1, 1, tzinfo=UTC), dt.datetime(2020, 1, 2, 0, tzinfo=UTC)]

class FS:
    """dictionary file system: path -> list of records ('old' marks pre-existing content)"""
    def __init__(self): self.files = {}; self.dirs = set(); self.renames = []
class FakeWriter:
    def __init__(self, fs, path):
        self.fs = fs; self.path = path; self.closed = False
        fs.files[path] = []                       # opening for writing truncates
        self.fp = types.SimpleNamespace(flush=lambda: None)
    def write(self, r):
        assert not self.closed; self.fs.files[self.path].append(r)
    def flush(self): pass
    def close(self): self.closed = True

def rotate(c0: int, c1: int, c2: int, pre0: bool, pre1: bool, pre2: bool) -> bool:
    """
    post: _
    """
    cs = [c0, c1, c2]
    if not all(0 <= c <= 2 for c in cs):
        return True
    fs = FS()
    tmpl = "/arch/{ts:%Y%m%dT%H}.records.gz"
    paths = [tmpl.format(ts=b) for b in BUCKETS]
    for p, pre in zip(paths, (pre0, pre1, pre2)):
        if pre: fs.files[p] = ["old:" + p]
    fs.dirs.add("/arch")
    real_os = S.os
    def rename(src, dst):
        assert src in fs.files and dst not in fs.files, "rename would overwrite"
        fs.files[dst] = fs.files.pop(src); fs.renames.append((src, dst))
    fake_path = types.SimpleNamespace(exists=lambda p: p in fs.files or p in fs.dirs, realpath=lambda p: p, dirname=real_os.path.dirname,
                                      basename=real_os.path.basename, join=real_os.path.join, splitext=real_os.path.splitext)
    S.os = types.SimpleNamespace(path=fake_path, rename=rename, makedirs=lambda d: fs.dirs.add(d))
    saved_rw = S.RecordWriter
    S.RecordWriter = lambda path: FakeWriter(fs, path)
    try:
        w = S.PathTemplateWriter(path_template="/arch/{ts:%Y%m%dT%H}.records.gz")
        recs = []
        for i, c in enumerate(cs):
            r = D(i, _generated=BUCKETS[c]); recs.append((paths[c], r)); w.write(r)
        w.close()
    finally:
        S.os = real_os; S.RecordWriter = saved_rw
    # every pre-existing file's content survives somewhere, untouched
    all_lists = list(fs.files.values())
    for p, pre in zip(paths, (pre0, pre1, pre2)):
        if pre and ["old:" + p] not in all_lists: return False
    # every record is in a file, exactly once, and that file is (a rotation of) the path its template names
    for path, r in recs:
        hits = [p for p, lst in fs.files.items() if any(x is r for x in lst)]
        if len(hits) != 1: return False
        if not (hits[0] == path or (hits[0].startswith(path[:-len(".records.gz")]) and hits[0].endswith(".records.gz"))): return False
    return True
