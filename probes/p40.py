import prelude, time, warnings, multiprocessing as mp
warnings.simplefilter("ignore")
import z3
from crosshair import statespace
from crosshair.core_and_libs import analyze_function, run_checkables
from crosshair.options import AnalysisOptionSet

STATS = {"checks": 0, "solver_s": 0.0, "paths": 0}
_orig_check = z3.Solver.check
def _check(self, *a, **k):
    t = time.perf_counter()
    try: return _orig_check(self, *a, **k)
    finally:
        STATS["checks"] += 1; STATS["solver_s"] += time.perf_counter() - t
z3.Solver.check = _check
_orig_init = statespace.StateSpace.__init__
def _init(self, *a, **k):
    STATS["paths"] += 1
    return _orig_init(self, *a, **k)
statespace.StateSpace.__init__ = _init

def work(expr):
    import p16
    for k in STATS: STATS[k] = 0
    t = time.time()
    fn = p16.make_check(expr, "i")
    msgs = list(run_checkables(analyze_function(fn, AnalysisOptionSet(per_condition_timeout=10, report_all=True))))
    return expr, [m.state.name for m in msgs], dict(STATS), round(time.time() - t, 2)

if __name__ == "__main__":
    exprs = ["r.n > 3", "r.n in (1, 2, r.m)", "r.s in ['a', r.t]", "r.n == r.m == 5", "r.b and r.n > 1", "'a' in r.s"] * 4
    t = time.time()
    with mp.Pool(16, maxtasksperchild=8) as pool:
        for res in pool.imap_unordered(work, exprs):
            print(res)
    print("wall", round(time.time() - t, 1))
