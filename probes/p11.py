import prelude
import flow.record.base as B
from flow.record.whitelist import WHITELIST
import importlib as _il, types
from crosshair import realize
B.importlib = types.SimpleNamespace(import_module=lambda name: _il.import_module(realize(name)))

def ft(clspath: str) -> bool:
    """
    post: _
    """
    try:
        cls = B.fieldtype.__wrapped__(clspath)
    except AttributeError:
        return True
    return any(clspath == w or clspath == w + "[]" for w in WHITELIST) and issubclass(cls, B.FieldType)

def _ident(s: str) -> bool:
    if len(s) == 0: return False
    c = s[0]
    if not ("a" <= c <= "z" or "A" <= c <= "Z"): return False
    for c in s[1:]:
        if not ("a" <= c <= "z" or "A" <= c <= "Z" or "0" <= c <= "9" or c == "_"): return False
    return True

def vf(name: str) -> bool:
    """
    pre: len(name) <= 4
    post: _
    """
    ok = B.is_valid_field_name(name)
    return (not ok) or _ident(name) or (name.endswith("\n") and _ident(name[:-1]))
