import prelude, warnings, io
warnings.simplefilter("ignore")
from flow.record import RecordDescriptor, RecordStreamWriter, GroupedRecord
from flow.record.packer import RecordPacker

A = RecordDescriptor("t/x", [("stringlist", "a"), ("string", "b")])
B = RecordDescriptor("t/x", [("string", "a"), ("string", "listb")])     # same identifier as A
C = RecordDescriptor("t/x", [("string", "c")])
H = RecordDescriptor("t/h", [("record", "inner"), ("varint", "k")])
def mk(i):
    if i == 0: return A(["p"], "q", _generated=1), [A]
    if i == 1: return B("r", "s", _generated=1), [B]
    if i == 2: return C("z", _generated=1), [C]
    if i == 3: return H(C("in", _generated=1), 7, _generated=1), [H, C]
    return GroupedRecord("g/r", [C("g1", _generated=1), H(None, 1, _generated=1)]), [C, H]

class Sink:
    def __init__(self): self.frames = []; self._pending = None
    def write(self, b):
        if self._pending is None: self._pending = b
        else: self.frames.append(b); self._pending = None
    def flush(self): pass
    def close(self): pass

def events(frames):
    """decode frames with an independent packer: ('D', descriptor) / ('R', descriptor-or-None)"""
    pk = RecordPacker(); out = []
    for f in frames:
        o = pk.unpack(f)
        if isinstance(o, RecordDescriptor): pk.register(o); out.append(("D", o))
        elif isinstance(o, (bytes, str)): out.append(("M", None))
        else: out.append(("R", o))
    return out

def step(b0: bool, b1: bool, b2: bool, b3: bool, b4: bool, nxt: int) -> bool:
    """
    post: _
    """
    if not (0 <= nxt < 5):
        return True
    sink = Sink(); w = RecordStreamWriter(sink)
    for i, b in enumerate((b0, b1, b2, b3, b4)):
        if b: w.write(mk(i)[0])
    w.flush()
    pre = events(sink.frames)
    # the descriptor currently in force for each identifier, as a reader of this stream sees it
    in_force = {}
    for k, o in pre:
        if k == "D": in_force[o.identifier] = o
    n0 = len(sink.frames)
    rec, needs = mk(nxt)
    w.write(rec)
    new = events(sink.frames)[n0:]      # decode with the whole prefix as context
    descs = [o for k, o in new if k == "D"]; recs = [o for k, o in new if k == "R"]
    must = []
    for d in needs:
        if in_force.get(d.identifier) != d and d not in must: must.append(d)
    order_ok = [k for k, _ in new] == ["D"] * len(descs) + ["R"]
    return order_ok and len(recs) == 1 and sorted(map(id, descs)) != None and all(d in descs for d in must) and all(d in needs for d in descs)
