import prelude, warnings, io, json, datetime as dt
warnings.simplefilter("ignore")
from flow.record import RecordDescriptor
from flow.record.adapter.jsonfile import JsonfileWriter, JsonfileReader
from flow.record import JsonRecordPacker

CAND = {
 "string": ["", "a\"b\n", "\udc80x"], "varint": [0, -1, 2**70], "boolean": [True, False], "float": [1.5, -0.0],
 "bytes": [b"", b"\x00\xff"], "datetime": [dt.datetime(2020, 1, 2, 3, 4, 5, 6, tzinfo=dt.timezone.utc)],
 "digest": [("d41d8cd98f00b204e9800998ecf8427e", None, None)], "net.ipaddress": ["1.2.3.4", "::1"], "net.ipnetwork": ["10.0.0.0/8"],
 "uri": ["http://x/y?z"], "path": ["/a/b"], "uint16": [0, 65535], "uint32": [4294967295], "stringlist": [["a", "b"], []], "string[]": [["x"], []],
}
def obs(v):
    import flow.record.fieldtypes as FT
    if isinstance(v, FT.digest): return ("digest", v.md5, v.sha1, v.sha256)
    if isinstance(v, list): return [obs(x) for x in v]
    return (type(v).__name__, str(v))

def make(ftype):
    D = RecordDescriptor("t/j", [(ftype, "f"), ("string", "g")])
    cands = CAND[ftype]
    def rt(is_none: bool, k: int, g_none: bool) -> bool:
        """
        post: _
        """
        if not (0 <= k < len(cands)):
            return True
        rec = D(None if is_none else cands[k], None if g_none else "g", _generated=1)
        out = io.StringIO()
        w = object.__new__(JsonfileWriter); w.descriptors = True; w.fp = out
        w.packer = JsonRecordPacker(); w.packer.on_descriptor.add_handler(w.packer_on_new_descriptor)
        w.write(rec)
        lines = out.getvalue().splitlines()
        docs = [json.loads(l) for l in lines]
        rd = object.__new__(JsonfileReader); rd.selector = None; rd.packer = JsonRecordPacker(); rd.fp = io.StringIO(out.getvalue())
        got = list(rd)
        return (len(got) == 1 and got[0]._desc.get_field_tuples() == D.get_field_tuples()
                and obs(got[0].f) == obs(rec.f) and obs(got[0].g) == obs(rec.g) and (got[0].f is None) == (rec.f is None))
    return rt

if __name__ == "__main__":
    import time
    from crosshair.core_and_libs import analyze_function, run_checkables
    from crosshair.options import AnalysisOptionSet
    opts = AnalysisOptionSet(per_condition_timeout=30, report_all=True)
    for ft in CAND:
        t = time.time()
        msgs = list(run_checkables(analyze_function(make(ft), opts)))
        print(f"{time.time()-t:5.1f}s {ft}: {[(m.state.name, m.message[:120]) for m in msgs]}", flush=True)
