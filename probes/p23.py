import prelude, time, sys, warnings
warnings.simplefilter("ignore")
from crosshair.core_and_libs import analyze_function, run_checkables
from crosshair.options import AnalysisOptionSet
from flow.record import RecordDescriptor
from flow.record.selector import Selector, CompiledSelector

D = RecordDescriptor("test/rec", [("varint", "n"), ("string", "s"), ("varint", "m"), ("string", "t")])
STR_FIELDS = ["s", "t"]; INT_FIELDS = ["n", "m"]

def make_check(expr, engine, ref):
    sel = Selector(expr) if engine == "i" else CompiledSelector(expr)
    def check(n: int, s: str, m: int, t: str) -> bool:
        """
        post: _
        """
        if len(s) > 3 or len(t) > 3:
            return True
        rec = D(0, "", 0, "")
        vals = {"n": n, "s": s, "m": m, "t": t}
        for k, v in vals.items():
            object.__setattr__(rec, k, v)
        try:
            exp = bool(ref(vals))
        except (ZeroDivisionError, TypeError):
            return True
        return bool(sel.match(rec)) == exp
    return check

cases = [
 ("Type.string == 'ab'", lambda v: any(v[f] == 'ab' for f in STR_FIELDS)),
 ("Type.varint > 3", lambda v: any(v[f] > 3 for f in INT_FIELDS)),
 ("'a' in Type.string", lambda v: any('a' in v[f] for f in STR_FIELDS)),
 ("Type.varint != 3", lambda v: any(v[f] != 3 for f in INT_FIELDS)),
 ("Type.varint <= 3", lambda v: any(v[f] <= 3 for f in INT_FIELDS)),
 ("field_equals(r, ['s', 't', 'zz'], ['ab'], nocase=False)", lambda v: any(v[f] == 'ab' for f in STR_FIELDS)),
 ("field_contains(r, ['s', 'zz'], ['a', 'b'], nocase=False)", lambda v: 'a' in v['s'] or 'b' in v['s']),
 ("field_regex(r, ['s'], 'a+b')", lambda v: __import__('re').search('a+b', v['s']) is not None),
 ("r.n in [1, 2] and Type.string == r.t", lambda v: v['n'] in [1, 2] and any(v[f] == v['t'] for f in STR_FIELDS)),
 ("names(r) == {'test/rec'}" if False else "'test/rec' in names(r)", lambda v: True),
]
opts = AnalysisOptionSet(per_condition_timeout=12, report_all=True)
for e, ref in cases:
    for eng in "ic":
        t1 = time.time()
        try:
            msgs = list(run_checkables(analyze_function(make_check(e, eng, ref), opts)))
            res = [(m.state.name, m.message[:110]) for m in msgs]
        except BaseException as ex:
            res = ["ENGINE-ERR " + type(ex).__name__ + str(ex)[:80]]
        print(f"{time.time()-t1:5.1f}s {eng} {e!r}: {res}", flush=True)
