import prelude, warnings, types
warnings.simplefilter("ignore")
import flow.record.stream as S
from flow.record.stream import RecordStreamWriter

class Blob:
    def __init__(self, n, tag): self.n = n; self.tag = tag
    def __len__(self): return self.n
class DiskFull(Exception): pass
class FaultyFile:
    """records how many bytes of which piece reached the disk; the j-th write call stores only `short` bytes and raises"""
    def __init__(self, j, short): self.j = j; self.short = short; self.calls = 0; self.disk = []
    def write(self, piece):
        n = len(piece)
        if self.calls == self.j:
            s = self.short if self.short < n else n
            self.disk.append((piece, s, n)); self.calls += 1
            raise DiskFull()
        self.disk.append((piece, n, n)); self.calls += 1
        return n

def faults(L0: int, L1: int, j: int, short: int) -> bool:
    """
    post: _
    """
    if not (0 <= L0 < 2**32 and 0 <= L1 < 2**32 and 0 <= j <= 6 and 0 <= short):
        return True
    real_struct = S.struct
    class Prefix:
        def __init__(self, n): self.value = n
        def __len__(self): return 4
    S.struct = types.SimpleNamespace(pack=lambda fmt, n: Prefix(n), unpack=real_struct.unpack, error=real_struct.error)
    try:
        fp = FaultyFile(j, short)
        w = object.__new__(RecordStreamWriter)
        w.fp = fp; w.header_written = False
        blobs = {"HDR": Blob(15, "HDR"), "A": Blob(L0, "A"), "B": Blob(L1, "B")}
        w.packer = types.SimpleNamespace(pack=lambda obj: blobs["HDR"] if not isinstance(obj, str) else blobs[obj])
        done = []
        try:
            for name in ("A", "B"):
                w.write(name); done.append(name)
        except DiskFull:
            pass
    finally:
        S.struct = real_struct
    # expected intended sequence: prefix(HDR) HDR prefix(A) A prefix(B) B ; the disk must be a prefix of it:
    # all pieces complete except possibly the last one
    seq = fp.disk
    kinds = []
    for piece, stored, n in seq:
        kinds.append(("P", piece.value) if isinstance(piece, Prefix) else ("B", piece.tag))
    intended = [("P", 15), ("B", "HDR"), ("P", L0), ("B", "A"), ("P", L1), ("B", "B")]
    if kinds != intended[: len(kinds)]:
        return False
    for i, (piece, stored, n) in enumerate(seq):
        if stored != n and i != len(seq) - 1:
            return False
    # a frame whose write() returned normally is completely on disk
    complete_bodies = [k[1] for k, (p, st, n) in zip(kinds, seq) if k[0] == "B" and st == n]
    return all(name in complete_bodies for name in done)
