import prelude, warnings, types
warnings.simplefilter("ignore")
import flow.record.base as B

CAP = []
class FakeSha:
    def __init__(self, data): CAP.append(data)
    def digest(self): return bytes(range(32))
B.hashlib = types.SimpleNamespace(sha256=FakeSha)
F = B.RecordDescriptor.calc_descriptor_hash.__wrapped__

def hash_input(name: str, t1: str, n1: str, t2: str, n2: str) -> bool:
    """
    post: _
    """
    if max(len(name), len(t1), len(n1), len(t2), len(n2)) > 4:
        return True
    del CAP[:]
    out = F(name, ((t1, n1), (t2, n2)))
    spec = (name + n1 + t1 + n2 + t2)
    return CAP[0] == spec.encode() and out == int.from_bytes(bytes(range(4)), "big")
