#!/bin/bash
# usage: run.sh <name> <file> <python-regex-old> <new> <probe> [timeout]
name=$1; file=$2; old=$3; new=$4; probe=$5; to=${6:-60}
rm -rf /tmp/mutrun/tree && mkdir -p /tmp/mutrun/tree && cp -r /repo/flow /tmp/mutrun/tree/
/venv/bin/python - "$file" "$old" "$new" <<'PY'
import sys
f, old, new = sys.argv[1:4]
p = "/tmp/mutrun/tree/" + f
s = open(p).read()
assert s.count(old) == 1, (s.count(old), old)
open(p, "w").write(s.replace(old, new))
PY
[ $? -eq 0 ] || { echo "$name: MUTATION NOT APPLIED"; exit; }
out=$(cd /verif/probes && PYTHONPATH=/tmp/mutrun/tree:/verif/probes timeout 600 /verif/.venv/bin/crosshair check --report_all --per_condition_timeout $to $probe 2>&1 | grep -E "error|info" | head -3)
echo "== $name :: $probe"; echo "$out" | cut -c1-220
