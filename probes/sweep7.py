import warnings; warnings.simplefilter("ignore")
import os, tempfile, shutil, io, contextlib, logging
from flow.record import RecordDescriptor, RecordWriter, RecordReader
from flow.record.tools import rdump
A = RecordDescriptor("sweep/a", [("string", "s"), ("varint", "n")]); B = RecordDescriptor("sweep/b", [("varint", "n"), ("string", "other")])
tmp = tempfile.mkdtemp()
def mk(name, recs):
    p = os.path.join(tmp, name)
    with RecordWriter(p) as w:
        for r in recs: w.write(r)
    return p
good1 = mk("g1.records", [A("x", 1), B(2, "o"), A("y", 3)]); good2 = mk("g2.records.gz", [B(4, "p"), A("z", 5)])
trunc = os.path.join(tmp, "t.records"); data = open(good1, "rb").read(); open(trunc, "wb").write(data[:-7])
garbage = os.path.join(tmp, "junk.records"); open(garbage, "wb").write(b"not a stream at all")
missing = os.path.join(tmp, "nope.records")
out = os.path.join(tmp, "out.records")
def run(args):
    if os.path.exists(out): os.remove(out)
    logging.disable(logging.CRITICAL)
    try:
        with contextlib.redirect_stderr(io.StringIO()):
            rdump.main(args + ["-w", out])
    finally: logging.disable(logging.NOTSET)
    return [(r._desc.name, r.n) for r in RecordReader(out)]
print("all good        ", run([good1, good2]))
print("missing first   ", run([missing, good1, good2]))
print("garbage middle  ", run([good1, garbage, good2]))
print("truncated middle", run([good1, trunc, good2]))
print("selector n>=3   ", run([good1, good2, "-s", "r.n >= 3"]))
print("selector r.s    ", run([good1, good2, "-s", "r.s in ['x', 'z']"]))
print("selector missing<=", run([good1, good2, "-s", "r.other <= 'p'"]))
print("skip1 count2    ", run([good1, good2, "--skip", "1", "-c", "2"]))
print("-n interpreted  ", run([good1, good2, "-n", "-s", "r.s in ['x', 'z']"]))
shutil.rmtree(tmp)
