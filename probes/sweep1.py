import warnings; warnings.simplefilter("ignore")
import io, os, tempfile, shutil, datetime as dt, pathlib, math
from flow.record import RecordDescriptor, GroupedRecord, RecordWriter, RecordReader, RecordStreamWriter, RecordStreamReader
from flow.record.whitelist import WHITELIST
import flow.record.fieldtypes as FT
UTC = dt.timezone.utc
VALS = {
 "boolean": [True, False, 1, 0], "command": ["ls -la /tmp", "c:\\windows\\cmd.exe /c dir", "'c:\\path to\\x.exe' /d", ""],
 "dynamic": ["s", 1, b"b", True, ["a"], dt.datetime(2020,1,1)], "datetime": [dt.datetime(2020,1,2,3,4,5,6), dt.datetime(1,1,1,tzinfo=UTC), dt.datetime(9999,12,31,23,59,59,999999,tzinfo=UTC), dt.datetime(1969,12,31,23,59,59, tzinfo=dt.timezone(dt.timedelta(hours=5, minutes=30, seconds=17))), "2022-01-01T00:00:00+02:00", 0, -1.5],
 "filesize": [0, 2**70], "uint16": [0, 65535], "uint32": [0, 2**32-1], "float": [0.0, -0.0, 1e308, float("inf"), float("nan"), 5e-324],
 "string": ["", "a", "\udc80\udcff", "\x00", "é𝄞", b"\xff\xfe"], "stringlist": [[], ["a", "\udc80"]], "dictlist": [[], [{"a": 1, "b": "x"}]],
 "unix_file_mode": [0o755], "varint": [0, -1, 2**63-1, 2**63, 2**64-1, 2**64, -2**63, -2**63-1, 2**200, -2**200], "wstring": ["w"],
 "net.ipv4.Address": ["1.2.3.4"], "net.ipv4.Subnet": ["10.0.0.0/8"], "net.tcp.Port": [0, 65535], "net.udp.Port": [53],
 "uri": ["http://u:p@h:80/p?q#f", ""], "digest": [("d41d8cd98f00b204e9800998ecf8427e", None, None), (None, None, None), {"sha256": "00"*32}],
 "bytes": [b"", b"\x00\xff" * 40000], "record": [None], "net.ipaddress": ["0.0.0.0", "255.255.255.255", "::", "::1", "::ffff:1.2.3.4", "2001:db8::1", 1, 2**32],
 "net.ipnetwork": ["0.0.0.0/0", "10.0.0.0/8", "::/0", "2001:db8::/32", "::1/128"], "net.IPAddress": ["1.1.1.1"], "net.IPNetwork": ["1.1.1.0/24"],
 "path": ["/a/b", "", "c:\\x\\y", pathlib.PureWindowsPath("c:\\x"), pathlib.PurePosixPath("/"), "a/../b", "//server/share/x"],
}
def obs(v):
    if isinstance(v, GroupedRecord): return ("G", v.name, [obs(x) for x in v.records])
    if hasattr(v, "_desc"): return ("R", v._desc.name, v._desc.get_field_tuples(), [(k, obs(getattr(v, k))) for k in v.__slots__])
    if isinstance(v, FT.digest): return ("digest", v.md5, v.sha1, v.sha256)
    if isinstance(v, FT.command): return (type(v).__name__, obs(v.executable), v.args)
    if isinstance(v, float): return ("float", type(v).__name__, v.hex() if not math.isnan(v) else "nan")
    if isinstance(v, dt.datetime): return (type(v).__name__, v.timetuple()[:6], v.microsecond, v.utcoffset())
    if isinstance(v, (list, tuple)): return (type(v).__name__, [obs(x) for x in v])
    if hasattr(v, "val"): return (type(v).__name__, type(v.val).__name__, str(v.val))
    return (type(v).__name__, str(v) if not isinstance(v, bytes) else v)
problems = []
tmp = tempfile.mkdtemp()
for t in WHITELIST:
    for form in (t, t + "[]"):
        try: D = RecordDescriptor("sweep/x", [(form, "f"), ("string", "g")])
        except Exception as e: problems.append(("DESC", form, repr(e))); continue
        vals = VALS.get(t, [])
        cands = [None] + (vals if form == t else [[], vals[:2], vals])
        for v in cands:
            try: rec = D(v, "g")
            except Exception as e:
                problems.append(("CTOR", form, repr(v)[:40], type(e).__name__ + ": " + str(e)[:60])); continue
            # stream round trip
            try:
                buf = io.BytesIO(); w = RecordStreamWriter(buf); w.write(rec); w.flush()
                out = list(RecordStreamReader(io.BytesIO(buf.getvalue())))
                if len(out) != 1 or obs(out[0]) != obs(rec): problems.append(("STREAM-DIFF", form, repr(v)[:40], str(obs(out[0].f))[:80] if out else "none", str(obs(rec.f))[:80]))
            except Exception as e: problems.append(("STREAM-EXC", form, repr(v)[:40], type(e).__name__ + ": " + str(e)[:60]))
            # eq / hash
            try:
                rec2 = D(v, "g", _generated=rec._generated)
                if not (rec == rec2) or rec != rec2: problems.append(("EQ", form, repr(v)[:40], "rebuilt copy not equal"))
                if hash(rec) != hash(rec2): problems.append(("HASH", form, repr(v)[:40], "hash differs"))
            except Exception as e: problems.append(("EQHASH-EXC", form, repr(v)[:40], type(e).__name__ + ": " + str(e)[:60]))
            # json
            try:
                p = os.path.join(tmp, "x.json")
                with RecordWriter(p) as w: w.write(rec)
                out = list(RecordReader(p))
                if len(out) != 1 or obs(out[0]) != obs(rec): problems.append(("JSON-DIFF", form, repr(v)[:40], str(obs(out[0].f))[:80] if out else "none", str(obs(rec.f))[:80]))
            except Exception as e: problems.append(("JSON-EXC", form, repr(v)[:40], type(e).__name__ + ": " + str(e)[:60]))
shutil.rmtree(tmp)
import collections
kinds = collections.Counter(p[0] for p in problems)
print(kinds)
for p in problems: print(p)
