import prelude
import collections, types
from flow.record.packer import RecordPacker
import flow.record.packer as P
Ext = collections.namedtuple("Ext", "code data")
P.msgpack = types.SimpleNamespace(ExtType=Ext)

def mk(n):
    lo = 256 ** (n - 1) if n > 0 else 0
    hi = 256 ** n
    def rt(v: int, neg: bool) -> bool:
        """
        post: _
        """
        if not (lo <= v < hi):
            return True
        x = -v if neg else v
        pk = RecordPacker()
        pk.pack = lambda obj: obj
        pk.unpack = lambda d: d
        ext = pk.pack_obj(x)
        sub, (ng, h) = ext.data
        return pk.unpack_obj(ext.code, ext.data) == x and len(h) == n and sub == 0x11 and ext.code == 14
    return rt

if __name__ == "__main__":
    import time, sys
    from crosshair.core_and_libs import analyze_function, run_checkables
    from crosshair.options import AnalysisOptionSet
    opts = AnalysisOptionSet(per_condition_timeout=60, report_all=True)
    for n in [0, 1, 2, 8, 9, 16]:
        t = time.time()
        msgs = list(run_checkables(analyze_function(mk(n), opts)))
        print(n, f"{time.time()-t:.1f}s", [(m.state.name, m.message[:100]) for m in msgs])
