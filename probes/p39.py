import prelude, warnings
warnings.simplefilter("ignore")
import flow.record.base as B
from flow.record.exceptions import RecordAdapterNotFound

MAGIC = b"RECORDSTREAM\n"
class FakeFP:
    def __init__(self, data): self.data = data
    def peek(self, n): return self.data

def container(data: bytes) -> bool:
    """
    post: _
    """
    if len(data) > 19:
        return True
    fp, adapter = B.find_adapter_for_stream(FakeFP(data))
    has_magic = any(data[i:i + 13] == MAGIC for i in range(0, 7))
    if data[:3] == b"Obj":
        exp = "avro"
    elif has_magic:
        exp = "stream"
    else:
        exp = None
    return adapter == exp
