import warnings; warnings.simplefilter("ignore")
import os, tempfile, shutil, io, contextlib, logging, itertools, datetime as dt
from flow.record import RecordDescriptor, RecordWriter, RecordReader
from flow.record.tools import rdump
UTC = dt.timezone.utc
A = RecordDescriptor("sweep/a", [("string", "s"), ("varint", "n"), ("datetime", "t1"), ("datetime", "ts")]); B = RecordDescriptor("sweep/b", [("varint", "n"), ("string", "other")])
tmp = tempfile.mkdtemp()
recs = [A("x", 1, dt.datetime(2020,1,1,tzinfo=UTC), dt.datetime(2021,1,1,tzinfo=UTC), _source="src0"), B(2, "o"), A("y", 3, None, dt.datetime(2022,1,1,tzinfo=UTC)), B(4, "p", _classification="c0")]
src = os.path.join(tmp, "in.records")
with RecordWriter(src) as w:
    for r in recs: w.write(r)
out = os.path.join(tmp, "out.records")
def run(args):
    if os.path.exists(out): os.remove(out)
    logging.disable(logging.CRITICAL)
    try:
        with contextlib.redirect_stderr(io.StringIO()):
            rdump.main([src] + args + ["-w", out])
    finally: logging.disable(logging.NOTSET)
    return [(r._desc.name, [(k, getattr(r, k)) for k in r._desc.fields], r._source, r._classification) for r in RecordReader(out)]
def ref(fields, exclude, rsrc, rcls, multi, skip, count):
    seq = recs[skip:] if not count else recs[skip:skip + count]
    outl = []
    for r in seq:
        d = [(k, getattr(r, k)) for k in r._desc.fields]
        s_ = rsrc if rsrc is not None else r._source; c_ = rcls if rcls is not None else r._classification
        if fields: d = [(k, v) for f in fields for (k, v) in d if k == f and k not in exclude]
        else: d = [(k, v) for k, v in d if k not in exclude]
        if multi:
            types = dict((n, t) for t, n in r._desc.get_field_tuples())
            dts = [k for k, v in d if types[k] == "datetime"]
            if dts:
                vals = dict(d)
                for f in dts:
                    rest = [(k, v) for k, v in d if k not in ("ts", "ts_description")]
                    outl.append((r._desc.name, [("ts", vals[f]), ("ts_description", f)] + rest, s_, c_))
                continue
        outl.append((r._desc.name, d, s_, c_))
    return outl
problems = []; n = 0
for fields in ([], ["s"], ["n", "s"], ["other", "n"], ["zz"], ["ts", "t1"]):
    for exclude in ([], ["n"], ["s", "ts"]):
        for rsrc in (None, "NEW"):
            for multi in (False, True):
                for skip, count in ((0, 0), (1, 2), (3, 5)):
                    args = []
                    if fields: args += ["-F", ",".join(fields)]
                    if exclude: args += ["-X", ",".join(exclude)]
                    if rsrc: args += ["--record-source", rsrc]
                    if multi: args += ["--multi-timestamp"]
                    if skip: args += ["--skip", str(skip)]
                    if count: args += ["-c", str(count)]
                    n += 1
                    try: got = run(args)
                    except Exception as e: problems.append((args, "EXC", type(e).__name__, str(e)[:80])); continue
                    exp = ref(fields, exclude, rsrc, None, multi, skip, count)
                    if got != exp: problems.append((args, "DIFF", got[:2], exp[:2]))
shutil.rmtree(tmp)
print(n, "runs;", len(problems), "problems")
for p in problems[:12]: print(p)
