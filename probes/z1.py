import z3, time
def q_int(n):
    v = z3.Int('v')
    s = z3.Solver(); s.set("timeout", 60000)
    lo = 256**(n-1) if n>0 else 0
    s.add(v >= lo, v < 256**n)
    bs = [ (v / (256**(n-1-i))) % 256 for i in range(n) ]
    back = z3.Sum([bs[i] * 256**(n-1-i) for i in range(n)]) if n else z3.IntVal(0)
    s.add(back != v)
    t=time.time(); r = s.check(); return str(r), time.time()-t
def q_bv(n):
    W = 8*n+8
    v = z3.BitVec('v', W)
    s = z3.Solver(); s.set("timeout", 60000)
    lo = 256**(n-1) if n>0 else 0
    s.add(z3.UGE(v, lo), z3.ULT(v, 256**n))
    bs = [ z3.Extract(7,0, z3.LShR(v, 8*(n-1-i))) for i in range(n) ]
    back = z3.BitVecVal(0, W)
    for i in range(n):
        back = back + (z3.ZeroExt(W-8, bs[i]) << (8*(n-1-i)))
    s.add(back != v)
    t=time.time(); r = s.check(); return str(r), time.time()-t
for n in [1,2,8,9,16,17,32]:
    print(n, "int", q_int(n), "bv", q_bv(n))
