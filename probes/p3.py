from flow.record import RecordDescriptor
from flow.record.selector import Selector, CompiledSelector

D = RecordDescriptor("test/rec", [("varint", "n"), ("string", "s")])

def mk(n, s):
    rec = D(0, "")
    object.__setattr__(rec, "n", n)
    object.__setattr__(rec, "s", s)
    return rec

S1 = Selector("r.missing <= r.n")
C1 = CompiledSelector("r.missing <= r.n")
S2 = Selector("r.n >= r.missing or r.s in r.missing")
C2 = CompiledSelector("not (r.n >= r.missing)")

def s1(n: int, s: str) -> bool:
    """
    post: _ == False
    """
    return bool(S1.match(mk(n, s)))

def c1(n: int, s: str) -> bool:
    """
    post: _ == False
    """
    return bool(C1.match(mk(n, s)))

def s2(n: int, s: str) -> bool:
    """
    post: _ == False
    """
    return bool(S2.match(mk(n, s)))
