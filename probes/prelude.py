# stub formatting of symbolic values inside error messages (no realization)
import crosshair.core as _core
from crosshair.libimpl import builtinslib as _bl
from crosshair.tracers import NoTracing
from crosshair.core import CrossHairValue

def _is_sym(x):
    return isinstance(x, CrossHairValue)

_orig_format = _bl._format
def _format(obj, format_spec=""):
    with NoTracing():
        if _is_sym(obj) and not isinstance(obj, _bl.AnySymbolicStr):
            return "<sym>"
    return _orig_format(obj, format_spec)

_core._PATCH_REGISTRATIONS[format] = _format
_bl._format = _format

from crosshair.tracers import ResumedTracing
_orig_int = _bl._int
def _int(val=0, base=_bl._MISSING):
    with NoTracing():
        t = type(val)
        user_int = (base is _bl._MISSING and not isinstance(val, (CrossHairValue, int, float, str, bytes, bytearray))
                    and hasattr(t, "__int__") and getattr(t, "__module__", "builtins") != "builtins")
        if not user_int and not isinstance(val, CrossHairValue) and not isinstance(base, CrossHairValue):
            # concrete fast path; calling the original patch here would be re-dispatched to this wrapper
            return int(val) if base is _bl._MISSING else int(val, base)
    if user_int:
        return _int(val.__int__())
    return _orig_int(val, base)
_core._PATCH_REGISTRATIONS[int] = _int

# never replace a call by an uninterpreted symbolic result
_core.ShortCircuitingContext.make_interceptor = lambda self, original: original
