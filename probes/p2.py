from typing import Tuple, Optional, List
from flow.record import RecordDescriptor
from flow.record.selector import Selector, CompiledSelector

D = RecordDescriptor("test/rec", [("varint", "n"), ("string", "s"), ("varint", "m")])
EXPR = "1 < r.n < 3 or (r.s + 'a' == 'xa' and r.n % 3 == r.m)"
SEL = Selector(EXPR)
CSEL = CompiledSelector(EXPR)

def mk(n, s, m):
    rec = D(0, "", 0)
    object.__setattr__(rec, "n", n)
    object.__setattr__(rec, "s", s)
    object.__setattr__(rec, "m", m)
    return rec

class R: pass

def interp_vs_python(n: int, s: str, m: int) -> bool:
    """
    post: _
    """
    rec = mk(n, s, m)
    r = R(); r.n = n; r.s = s; r.m = m
    try:
        exp = bool(eval(EXPR, {"r": r}))
    except ZeroDivisionError:
        return True
    got = bool(SEL.match(rec))
    return got == exp

def compiled_vs_python(n: int, s: str, m: int) -> bool:
    """
    post: _
    """
    rec = mk(n, s, m)
    r = R(); r.n = n; r.s = s; r.m = m
    try:
        exp = bool(eval(EXPR, {"r": r}))
    except ZeroDivisionError:
        return True
    got = bool(CSEL.match(rec))
    return got == exp
