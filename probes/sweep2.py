import warnings; warnings.simplefilter("ignore")
import os, tempfile, shutil, itertools, sqlite3, gzip
from flow.record import RecordDescriptor, RecordWriter, RecordReader
D = RecordDescriptor("sweep/w", [("string", "s"), ("varint", "n")])
tmp = tempfile.mkdtemp()
targets = {"stream": "a.records", "gz": "a.records.gz", "json": "a.json", "jsongz": "jsonfile://a.jsonl.gz", "avro": "a.avro", "sqlite": "sqlite://a.db", "csv": "a.csv", "line": "line://a.txt", "text": "text://a.txt",
           "split": "split://a.records?count=2", "splitjson": "split+jsonfile://a.json?count=2"}
OPS = ["w", "f", "c", "x"]   # write, flush, close, __exit__
problems = []; n = 0
def readable(kind, d):
    files = sorted(os.listdir(d))
    if kind in ("stream", "gz", "json", "jsongz", "avro", "split", "splitjson"):
        out = []
        for f in files:
            p = os.path.join(d, f)
            out += [ (r.s, r.n) for r in RecordReader(("jsonfile://" + p) if "json" in kind else p)]
        return out, files
    if kind == "sqlite":
        con = sqlite3.connect(os.path.join(d, "a.db"))
        try: return [tuple(r) for r in con.execute('select s, n from "sweep/w"')], files
        except sqlite3.OperationalError as e:
            return ([] if "no such table" in str(e) else ["ERR " + str(e)]), files
    if kind == "csv":
        rows = list(__import__("csv").reader(open(os.path.join(d, "a.csv"), newline="")))
        return [(r[0], int(r[1])) for r in rows[1:]], files
    txt = open(os.path.join(d, "a.txt")).read()
    if kind == "text": return [l for l in txt.splitlines()], files
    return [l for l in txt.splitlines() if l.lstrip().startswith("s =")], files
for kind, url in targets.items():
    for k in range(1, 5):
        for hist in itertools.product(OPS, repeat=k):
            if hist[-1] not in "cx": continue          # must end closed
            fc = [i for i, o in enumerate(hist) if o in "cx"][0]
            if any(o in "wf" for o in hist[fc:]): continue   # nothing after first close except more closes
            n += 1
            d = tempfile.mkdtemp(dir=tmp); cwd = os.getcwd(); os.chdir(d)
            try:
                w = RecordWriter(url); written = []
                for i, o in enumerate(hist):
                    if o == "w": rec = D(f"v{i}", i); w.write(rec); written.append((rec.s, rec.n))
                    elif o == "f": w.flush()
                    elif o == "c": w.close()
                    else: w.__exit__(None, None, None)
                got, files = readable(kind, d)
                if kind in ("text", "line"):
                    ok = len(got) == len(written)
                else:
                    ok = got == written
                if not ok: problems.append((kind, "".join(hist), "written", written, "got", got, files))
            except Exception as e:
                problems.append((kind, "".join(hist), "EXC", type(e).__name__, str(e)[:80]))
            finally:
                os.chdir(cwd)
shutil.rmtree(tmp)
print(n, "histories;", len(problems), "problems")
seen = set()
for p in problems:
    key = (p[0], p[2], p[3] if p[2] == "EXC" else (len(p[3]), len(p[5])))
    if key in seen: continue
    seen.add(key); print(p)
