import prelude, argparse, warnings, logging
warnings.simplefilter("ignore")
from flow.record import RecordDescriptor
import flow.record.tools.rdump as RD
import flow.record.stream as ST

D = RecordDescriptor("test/rec", [("varint", "n")])
SRC = {"a": [D(i, _generated=1) for i in range(2)], "b": [D(10 + i, _generated=1) for i in range(2)], "c": [D(20 + i, _generated=1) for i in range(2)]}

def model_islice(it, start, stop):
    i = 0
    for x in it:
        if stop is not None and i >= stop:
            break
        if i >= start:
            yield x
        i += 1

class Collect:
    def __init__(self, uri): self.out = []; self.closed = 0; OUT.append(self)
    def write(self, r): self.out.append(r)
    def flush(self): pass
    def close(self): self.closed += 1
    def __exit__(self, *a): self.flush(); self.close()
OUT = []

class FakeReader:
    """yields `good` records of the source, then fails in the way `mode` says (0 = clean end, 1 = IOError, 2 = other exception, 3 = fails on open)"""
    def __init__(self, src, good, mode, selector):
        if mode == 3: raise IOError("cannot open")
        self.src = src; self.good = good; self.mode = mode; self.selector = selector
    def __iter__(self):
        for i, r in enumerate(SRC[self.src]):
            if i >= self.good and self.mode != 0:
                break
            if not self.selector or self.selector.match(r):
                yield r
        if self.mode == 1: raise IOError("truncated")
        if self.mode == 2: raise ValueError("garbage")
    def close(self): pass

def pipeline(skip: int, count: int, ga: int, ma: int, gb: int, mb: int) -> bool:
    """
    post: _
    """
    if not (0 <= skip <= 3 and 0 <= count <= 7 and 0 <= ga <= 2 and 0 <= ma <= 3 and 0 <= gb <= 2 and 0 <= mb <= 3):
        return True
    del OUT[:]
    plan = {"a": (ga, ma), "b": (gb, mb), "c": (2, 0)}
    orig_parse = argparse.ArgumentParser.parse_args
    def parse(self, argv=None):
        ns = orig_parse(self, argv); ns.skip = skip; ns.count = count; return ns
    argparse.ArgumentParser.parse_args = parse
    saved = (RD.islice, ST.RecordReader, RD.RecordWriter)
    RD.islice = model_islice
    ST.RecordReader = lambda src, selector=None: FakeReader(src, plan[src][0], plan[src][1], selector)
    RD.RecordWriter = Collect
    logging.disable(logging.CRITICAL)
    try:
        RD.main.__wrapped__(["a", "b", "c"])
    finally:
        argparse.ArgumentParser.parse_args = orig_parse
        RD.islice, ST.RecordReader, RD.RecordWriter = saved
        logging.disable(logging.NOTSET)
    # reference pipeline
    allrecs = []
    for s in ("a", "b", "c"):
        g, m = plan[s]
        if m == 3: continue
        allrecs += SRC[s] if m == 0 else SRC[s][:g]
    exp = allrecs[skip:] if count == 0 else allrecs[skip:skip + count]
    got = OUT[0].out
    return len(got) == len(exp) and all(x is y for x, y in zip(got, exp)) and OUT[0].closed == 1
