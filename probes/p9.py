import prelude
from typing import List
from flow.record import RecordDescriptor, RecordStreamReader
from flow.record.adapter.jsonfile import JsonfileReader
from flow.record.adapter.csvfile import CsvfileReader
from flow.record.adapter.avro import AvroReader
from flow.record.adapter.sqlite import SqliteReader

D = RecordDescriptor("test/rec", [("varint", "n")])
RECS = [D(i, _generated=0) for i in range(4)]

class Sel:
    def __init__(self, outcomes): self.outcomes = outcomes; self.i = 0; self.seen = []
    def match(self, rec):
        self.seen.append(rec); b = self.outcomes[self.i]; self.i += 1; return b

def stream_loop(b0: bool, b1: bool, b2: bool, b3: bool) -> bool:
    """
    post: _
    """
    outs = [b0, b1, b2, b3]
    rd = object.__new__(RecordStreamReader)
    rd.closed = False; rd.selector = Sel(outs)
    q = [D] + list(RECS)
    def read():
        if not q: raise EOFError()
        return q.pop(0)
    rd.read = read
    class P:
        def register(self, d): pass
    rd.packer = P()
    got = list(rd)
    exp = [r for r, b in zip(RECS, outs) if b]
    return len(got) == len(exp) and all(g is e for g, e in zip(got, exp)) and rd.selector.seen == RECS

def sqlite_loop(b0: bool, b1: bool, b2: bool, b3: bool) -> bool:
    """
    post: _
    """
    outs = [b0, b1, b2, b3]
    rd = object.__new__(SqliteReader)
    rd.selector = Sel(outs)
    rd.table_names = lambda: ["a", "b"]
    rd.read_table = lambda t: iter(RECS[:2] if t == "a" else RECS[2:])
    got = list(rd)
    exp = [r for r, b in zip(RECS, outs) if b]
    return len(got) == len(exp) and all(g is e for g, e in zip(got, exp))
