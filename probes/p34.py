import prelude, warnings, types, io
warnings.simplefilter("ignore")
import flow.record.adapter.avro as AV
from flow.record import RecordDescriptor

D = RecordDescriptor("t/av", [("string", "s")])
RECS = [D("a", _generated=1), D("b", _generated=1), D("c", _generated=1)]

class FakeFile:
    def __init__(self): self.blocks = []; self.closed = False; self.header = False
    def close(self): self.closed = True
    def flush(self): pass

class FakeAvroWriter:
    """contract of fastavro.write.Writer: header at construction, write() buffers, flush() writes the buffered block;
    the writer may also flush on its own whenever its buffer is 'full' (nondeterministic: one bit per write)"""
    spont = []
    def __init__(self, fo, schema, codec=None, **kw):
        assert not fo.closed and not fo.header, "second container header on the same file"
        self.fo = fo; self.buf = []; fo.header = True
    def write(self, rec):
        assert not self.fo.closed
        self.buf.append(rec)
        if FakeAvroWriter.spont and FakeAvroWriter.spont.pop(0): self.flush()
    def flush(self):
        assert not self.fo.closed, "flush on closed file"
        if self.buf: self.fo.blocks.append(list(self.buf)); self.buf = []

def hist(o0: int, o1: int, o2: int, o3: int, s0: bool, s1: bool, s2: bool) -> bool:
    """
    post: _
    """
    ops = [o0, o1, o2, o3]
    if not all(0 <= o <= 3 for o in ops):
        return True
    # 0 write, 1 flush, 2 close, 3 __exit__ ; after the first close/exit only close/exit may follow; must end closed
    closed_at = None
    for i, o in enumerate(ops):
        if o >= 2 and closed_at is None: closed_at = i
        if closed_at is not None and o < 2: return True
    if closed_at is None:
        return True
    FakeAvroWriter.spont = [s0, s1, s2]
    saved = (AV.fastavro, AV.find_spec)
    AV.fastavro = types.SimpleNamespace(write=types.SimpleNamespace(Writer=FakeAvroWriter), parse_schema=lambda s: s)
    try:
        f = FakeFile()
        w = object.__new__(AV.AvroWriter)
        w.fp = f; w.desc = None; w.schema = None; w.parsed_schema = None; w.writer = None; w.codec = "null"
        written = []
        k = 0
        for o in ops:
            if o == 0: w.write(RECS[k]); written.append(RECS[k]._packdict()["s"]); k += 1
            elif o == 1: w.flush()
            elif o == 2: w.close()
            else: w.__exit__(None, None, None)
    finally:
        AV.fastavro, AV.find_spec = saved
    on_disk = [r["s"] for blk in f.blocks for r in blk]
    return f.closed and f.header and on_disk == written
