import warnings; warnings.simplefilter("ignore")
import datetime as dt, pathlib, io
from flow.record import RecordDescriptor, RecordStreamWriter
from flow.record.whitelist import WHITELIST
from flow.record.base import fieldtype
import flow.record.fieldtypes as FT
CANDS = [None, 0, 1, -1, 2, 65535, 65536, 2**32 - 1, 2**32, 2**128 - 1, 2**128, 1.5, float("nan"), True, False, "", "a", "1", "1.2.3.4", "::1", "10.0.0.0/8", "10.0.0.1/8",
         "abcd", "d41d8cd98f00b204e9800998ecf8427e", b"", b"\xff", [], ["a"], [1], (None, None, None), ("zz", None, None), ("00" * 16, "00" * 20, "00" * 32), {"md5": "00"}, {},
         dt.datetime(2020, 1, 1), dt.datetime(2020, 1, 1, tzinfo=dt.timezone(dt.timedelta(hours=2))), "2020-01-01T00:00:00", "garbage", pathlib.PurePosixPath("/x"), pathlib.PureWindowsPath("c:/x"),
         object(), "ls -la", "http://x"]
SKIP = {"record", "net.ipv4.Subnet"}
problems = []
def check_slot(ftype, rec, form):
    v = rec.f
    T = fieldtype(form)
    if v is None: return True
    if isinstance(v, T): 
        if form.endswith("[]"):
            ET = fieldtype(form[:-2])
            return all(isinstance(x, ET) for x in v)
        return True
    if ftype == "dynamic": return isinstance(v, FT.FieldType if hasattr(FT, "FieldType") else object)
    return False
n = 0
for t in WHITELIST:
    if t in SKIP: continue
    for form in (t, t + "[]"):
        D = RecordDescriptor("sweep/t", [(form, "f"), ("string", "g")])
        for c in CANDS:
            cands = [c] if form == t else [[c], [c, c]]
            for v in cands:
                n += 1
                rec = D(None, "g")
                before = rec._pack()
                try:
                    rec.f = v
                    accepted = True
                except Exception as e:
                    accepted = False
                    try:
                        if rec._pack() != before: problems.append(("CHANGED-ON-REJECT", form, repr(v)[:40], type(e).__name__))
                    except Exception as e2: problems.append(("PACK-AFTER-REJECT-EXC", form, repr(v)[:40], type(e2).__name__))
                    continue
                try:
                    ok = check_slot(t, rec, form)
                except Exception as e: ok = False
                if not ok: problems.append(("WRONG-TYPE", form, repr(v)[:40], type(rec.f).__name__))
                try:
                    buf = io.BytesIO(); w = RecordStreamWriter(buf); w.write(rec); w.flush()
                except Exception as e: problems.append(("NOT-SERIALISABLE", form, repr(v)[:40], type(e).__name__ + ": " + str(e)[:50]))
print(n, "assignments;", len(problems))
for p in problems: print(p)
