import prelude, ast, warnings
warnings.simplefilter("ignore")
from flow.record import RecordDescriptor
from flow.record.selector import Selector, FUNCTION_WHITELIST
from flow.record.whitelist import WHITELIST

D = RecordDescriptor("test/rec", [("string", "s"), ("varint", "n")])
REC = D("abc", 1)
NAMES = ["r", "lower", "upper", "str", "x", "net"]
ATTRS = ["s", "upper", "n", "lower", "ipaddress"]
ALLOWED_NAMES = {f.__name__ for f in FUNCTION_WHITELIST} | {"str", "repr", "any", "all", "fields"}

def target(k, a, b, depth):
    if depth == 0 or k == 0:
        return ast.Name(id=NAMES[a % 6], ctx=ast.Load())
    if k == 1:
        return ast.Attribute(value=target(b % 4, a // 6, b // 4, depth - 1), attr=ATTRS[a % 5], ctx=ast.Load())
    if k == 2:
        return ast.Call(func=ast.Name(id="lower", ctx=ast.Load()), args=[target(b % 4, a // 6, b // 4, depth - 1)], keywords=[])
    return ast.Constant(value="abc")

def allowed(t):
    """reference classification from the property text"""
    if isinstance(t, ast.Name):
        return t.id in ALLOWED_NAMES
    parts = []
    x = t
    while isinstance(x, ast.Attribute):
        parts.append(x.attr); x = x.value
    if isinstance(x, ast.Name):
        parts.append(x.id)
        return ".".join(reversed(parts)) in WHITELIST
    return False

def sandbox(k: int, a: int, b: int, gen: bool) -> bool:
    """
    post: _
    """
    if not (0 <= k < 4 and 0 <= a < 6 * 6 * 6 * 6 and 0 <= b < 4 * 4 * 4):
        return True
    t = target(k, a, b, 3)
    if gen:
        src = "any(f() for f in [" + ast.unparse(t) + "])"
        ok_shape = False           # calling a generator variable is never a whitelisted call
    else:
        src = ast.unparse(ast.Call(func=t, args=[], keywords=[]))
        ok_shape = allowed(t)
    if ok_shape:
        return True
    try:
        Selector(src).match(REC)
    except Exception:
        return True
    return False
