import z3, time
from flow.record.whitelist import WHITELIST
types = [t for t in WHITELIST] + [t+"[]" for t in WHITELIST]
ident = z3.Concat(z3.Union(z3.Range("a","z"), z3.Range("A","Z")), z3.Star(z3.Union(z3.Range("a","z"), z3.Range("A","Z"), z3.Range("0","9"), z3.Re("_"))))
def T(x): return z3.Or([x == z3.StringVal(t) for t in types])
s = z3.Solver(); s.set("timeout", 60000)
n1,t1,n2,t2 = z3.Strings("n1 t1 n2 t2"); m1,u1,m2,u2 = z3.Strings("m1 u1 m2 u2")
for n in (n1,n2,m1,m2): s.add(z3.InRe(n, ident), z3.Length(n) <= 6)
for t in (t1,t2,u1,u2): s.add(T(t))
A = z3.Concat(n1,t1,n2,t2); B = z3.Concat(m1,u1,m2,u2)
s.add(A == B)
s.add(z3.Or(n1 != m1, t1 != u1, n2 != m2, t2 != u2))
s.add(n1 != n2, m1 != m2)
t=time.time(); r = s.check(); print(r, time.time()-t)
if str(r)=="sat":
    m = s.model(); print([(m[x]) for x in (n1,t1,n2,t2)], [(m[x]) for x in (m1,u1,m2,u2)])
