import warnings; warnings.simplefilter("ignore")
import os, tempfile, shutil, json, glob
from flow.record import RecordDescriptor, RecordWriter, RecordReader
from flow.record.selector import Selector, CompiledSelector, make_selector
A = RecordDescriptor("sweep/a", [("string", "s"), ("varint", "n")]); B = RecordDescriptor("sweep/b", [("varint", "n"), ("string", "other")])
recs = [A("x", 1), B(2, "o"), A("y", 3), B(4, "p"), A("x", 5), A(None, None)]
tmp = tempfile.mkdtemp(); problems = []
sels = ["r.n > 2", "r.s == 'x'", "r.other", "r.s in ['x', 'y'] and r.n != 3", "name(r) == 'sweep/b'", "r.missing == 1", "r.other <= 'o'", "True", "not r.s"]
targets = {"records": "x.records", "gz": "x.records.gz", "json": "x.json", "sqlite": "sqlite://x.db", "avro": "x.avro", "csv": "x.csv"}
for kind, url in targets.items():
    d = tempfile.mkdtemp(dir=tmp); os.chdir(d)
    src = recs if kind not in ("avro",) else [r for r in recs if r._desc is A]
    try:
        with RecordWriter(url) as w:
            for r in src: w.write(r)
    except Exception as e:
        problems.append((kind, "WRITE", type(e).__name__, str(e)[:80])); continue
    for s in sels:
        for mk in (lambda x: x, Selector, CompiledSelector):
            try:
                plain = list(RecordReader(url))
                sel = mk(s)
                with_sel = list(RecordReader(url, selector=sel))
                ms = make_selector(sel)
                after = []
                for r in plain:
                    try:
                        if ms.match(r): after.append(r)
                    except Exception as e:
                        after = ("EXC", type(e).__name__); break
                if isinstance(after, tuple): problems.append((kind, s, mk.__name__ if hasattr(mk, "__name__") else "text", "post-filter raised", after)); continue
                key = lambda r: (r._desc.name, [getattr(r, f) for f in r._desc.fields])
                if [key(r) for r in with_sel] != [key(r) for r in after]: problems.append((kind, s, getattr(mk, "__name__", "text"), len(with_sel), len(after)))
            except Exception as e:
                problems.append((kind, s, getattr(mk, "__name__", "text"), "EXC", type(e).__name__, str(e)[:60]))
    os.chdir(tmp)
# JSON descriptors=false
d = tempfile.mkdtemp(dir=tmp); os.chdir(d)
with RecordWriter("jsonfile://nd.json?descriptors=false") as w:
    for r in recs: w.write(r)
lines = open("nd.json").read().splitlines()
print("descriptors=false lines:", len(lines), [sorted(json.loads(l).keys()) for l in lines[:2]])
back = list(RecordReader("jsonfile://nd.json"))
print("read back", len(back), [(r._desc.name, r._desc.get_field_tuples()) for r in back[:2]], [getattr(r, "s", "?") for r in back])
with RecordWriter("jsonfile://ind.json?indent=2") as w:
    for r in recs[:2]: w.write(r)
try: print("indent read back:", len(list(RecordReader("jsonfile://ind.json"))))
except Exception as e: print("indent read EXC", type(e).__name__, str(e)[:80])
# split arithmetic
os.chdir(tmp)
for N in range(0, 8):
    for count in (1, 2, 3):
        d = tempfile.mkdtemp(dir=tmp); os.chdir(d)
        with RecordWriter(f"split://part.records?count={count}") as w:
            for i in range(N): w.write(A("v", i))
        files = sorted(glob.glob("part.*.records"))
        got = []; sizes = []
        try:
            for f in files:
                rs = [r.n for r in RecordReader(f)]; sizes.append(len(rs)); got += rs
            if got != list(range(N)) or any(s > count for s in sizes): problems.append(("split", N, count, sizes, got))
        except Exception as e: problems.append(("split", N, count, files, "EXC", type(e).__name__, str(e)[:50]))
        os.chdir(tmp)
os.chdir("/"); shutil.rmtree(tmp)
print(len(problems), "problems")
for p in problems[:30]: print(p)
