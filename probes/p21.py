import prelude, warnings, time, itertools
warnings.simplefilter("ignore")
from crosshair.core_and_libs import analyze_function, run_checkables
from crosshair.options import AnalysisOptionSet
from flow.record import RecordDescriptor, extend_record

NAMES = ["a", "b", "ts"]
def shapes():
    for k in (1, 2):
        for names in itertools.permutations(NAMES, k):
            yield [("record", n) for n in names]

def make(f1, f2):
    d1 = RecordDescriptor("x/one", f1); d2 = RecordDescriptor("x/two", f2)
    def ext(replace: bool, v1: int, v2: int, w1: int, w2: int) -> bool:
        """
        post: _
        """
        vals1 = [v1, v2][: len(f1)]; vals2 = [w1, w2][: len(f2)]
        r1 = d1(*vals1, _generated=1); r2 = d2(*vals2, _generated=1)
        out = extend_record(r1, [r2], replace=replace)
        order = []; val = {}
        for (t, n), v in list(zip(f1, vals1)) + list(zip(f2, vals2)):
            if n not in order:
                order.append(n); val[n] = v
            elif replace:
                val[n] = v
        ok = [n for _, n in out._desc.get_field_tuples()] == order and out._desc.name == "x/one"
        for n in order:
            if not (getattr(out, n) == val[n]):
                ok = False
        return ok
    return ext

opts = AnalysisOptionSet(per_condition_timeout=20, report_all=True)
t0 = time.time(); res = {}
S = list(shapes())
for f1 in S:
    for f2 in S:
        msgs = list(run_checkables(analyze_function(make(f1, f2), opts)))
        st = msgs[0].state.name if msgs else "NONE"
        res[st] = res.get(st, 0) + 1
print(res, len(S)**2, "shapes", round(time.time()-t0, 1), "s")
