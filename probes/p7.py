import prelude, time, sys
from crosshair.core_and_libs import analyze_function, run_checkables
from crosshair.options import AnalysisOptionSet
from crosshair.options import DEFAULT_OPTIONS
from flow.record import RecordDescriptor
from flow.record.selector import Selector, CompiledSelector

D = RecordDescriptor("test/rec", [("varint", "n"), ("string", "s"), ("varint", "m")])
class R: pass

def make_check(expr):
    sel = Selector(expr); csel = CompiledSelector(expr)
    def check(n: int, s: str, m: int) -> bool:
        """
        post: _
        """
        rec = D(0, "", 0)
        object.__setattr__(rec, "n", n); object.__setattr__(rec, "s", s); object.__setattr__(rec, "m", m)
        r = R(); r.n = n; r.s = s; r.m = m
        try:
            exp = bool(eval(expr, {"r": r}))
        except (ZeroDivisionError, TypeError):
            return True
        return bool(sel.match(rec)) == exp and bool(csel.match(rec)) == exp
    return check

ops = ["==", "!=", "<", "<=", ">", ">="]
exprs = []
for a in ops:
    for b in ["and", "or"]:
        exprs.append(f"r.n {a} 3 {b} r.s {a} 'ab'")
        exprs.append(f"not (r.n + r.m {a} 7) {b} 'a' in r.s")
        exprs.append(f"r.n {a} r.m {a} 5")
opts = AnalysisOptionSet(per_condition_timeout=10, report_all=True)
t0 = time.time()
res = {}
for e in exprs:
    fn = make_check(e)
    t1 = time.time()
    msgs = list(run_checkables(analyze_function(fn, opts)))
    res[e] = [(m.state.name, m.message[:80]) for m in msgs]
    print(f"{time.time()-t1:5.2f}s {e!r}: {res[e]}")
print("total", time.time() - t0, len(exprs))
