import prelude, warnings
warnings.simplefilter("ignore")
from typing import Optional
import flow.record.base as B
from flow.record import RecordDescriptor, GroupedRecord

P2 = RecordDescriptor("t/p", [("record", "x"), ("record", "y")])   # carriers
Q2 = RecordDescriptor("t/q", [("record", "x"), ("record", "y")])

def mk(D, x, y, src):
    r = D(x, y, _generated=0); object.__setattr__(r, "_source", src); return r

def eq_contract(x1: int, y1: Optional[int], s1: str, x2: int, y2: Optional[int], s2: str, ign_x: bool, ign_src: bool, same_desc: bool) -> bool:
    """
    post: _
    """
    ign = set()
    if ign_x: ign.add("x")
    if ign_src: ign.add("_source")
    a = mk(P2, x1, y1, s1); b = mk(P2 if same_desc else Q2, x2, y2, s2)
    with B.ignore_fields_for_comparison(ign):
        got = (a == b); got_rev = (b == a); refl = (a == a)
        ne = (a != b)
    exp = same_desc and (ign_x or x1 == x2) and (y1 == y2) and (ign_src or s1 == s2)
    return got == exp and got_rev == exp and refl and ne == (not exp) and B.IGNORE_FIELDS_FOR_COMPARISON == set()

def hash_contract(x1: int, y1: Optional[int], x2: int, y2: Optional[int], ign_x: bool) -> bool:
    """
    post: _
    """
    a = mk(P2, x1, y1, "s"); b = mk(P2, x2, y2, "s")
    with B.ignore_fields_for_comparison({"x"} if ign_x else set()):
        if a == b:
            return hash(a) == hash(b)
    return True
