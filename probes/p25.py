import prelude, types, warnings
warnings.simplefilter("ignore")
import flow.record.stream as S
from flow.record.stream import RecordStreamReader, RecordStreamWriter
from flow.record import RecordDescriptor, RECORDSTREAM_MAGIC

DESC = RecordDescriptor("t/r", [("varint", "n")])
class Chunk:
    def __init__(self, off, n): self.off = off; self.n = n
    def __len__(self): return self.n
class AbsFile:
    def __init__(self, pos, limit): self.pos = pos; self.limit = limit
    def read(self, n):
        avail = self.limit - self.pos
        take = n if avail >= n else avail
        c = Chunk(self.pos, take); self.pos += take
        return c
class FrameError(Exception): pass

def iter_cut(k0: int, k1: int, k2: int, L0: int, L1: int, L2: int, limit: int) -> bool:
    """
    post: _
    """
    kinds = [k0, k1, k2]; Ls = [L0, L1, L2]
    if not all(0 <= k <= 2 for k in kinds) or not all(0 <= L < 2**32 for L in Ls):
        return True
    starts = [0, 4 + L0, 8 + L0 + L1]; end = 12 + L0 + L1 + L2
    if not (0 <= limit <= end):
        return True
    objs = []
    for i, k in enumerate(kinds):
        objs.append(RECORDSTREAM_MAGIC if k == 0 else DESC if k == 1 else ("REC", i))
    def frame_at(off):
        for i in range(3):
            if off == starts[i]: return i
        return None
    real_struct = S.struct
    def unpack_len(fmt, chunk):
        assert fmt == ">I"
        if len(chunk) != 4: raise real_struct.error("short")
        i = frame_at(chunk.off); assert i is not None
        return (Ls[i],)
    class Packer:
        def __init__(self): self.registered = []
        def unpack(self, chunk):
            i = frame_at(chunk.off - 4)
            if i is not None and len(chunk) == Ls[i]:
                return objs[i]
            raise FrameError("incomplete")
        def register(self, d): self.registered.append(d)
    S.struct = types.SimpleNamespace(unpack=unpack_len, pack=real_struct.pack, error=real_struct.error)
    try:
        rd = object.__new__(RecordStreamReader)
        rd.fp = AbsFile(0, limit); rd.packer = Packer(); rd.closed = False; rd.selector = None
        got = []; raised = False
        try:
            for r in rd:
                got.append(r)
        except (FrameError, real_struct.error):
            raised = True
    finally:
        S.struct = real_struct
    exp = [objs[i] for i in range(3) if kinds[i] == 2 and starts[i] + 4 + Ls[i] <= limit
           and all(starts[j] + 4 + Ls[j] <= limit for j in range(i))]
    on_boundary = limit in (0, starts[1], starts[2], end)
    return got == exp and (not on_boundary or not raised)
