import prelude, warnings
warnings.simplefilter("ignore")
import flow.record.adapter.split as SP
import flow.record.adapter.sqlite as SQ
from flow.record import RecordDescriptor

class Sub:
    def __init__(self, path): self.path = path; self.recs = []; self.flushed = 0; self.closed = False; ALL.append(self)
    def write(self, r):
        assert not self.closed; self.recs.append(r)
    def flush(self): self.flushed = len(self.recs)
    def close(self): self.closed = True
ALL = []

def split_step(written: int, count: int, file_count: int) -> bool:
    """
    post: _
    """
    if not (count >= 1 and 0 <= written < count and 0 <= file_count < 50):
        return True
    del ALL[:]
    w = object.__new__(SP.SplitWriter)
    w.path = "out.records"; w.kwargs = {}; w.written = written; w.count = count; w.suffix_length = 2
    w.file_count = file_count; w.is_stdout = False
    cur = Sub("cur"); cur.recs = ["old"] * 0
    w.writer = cur
    saved = SP.RecordWriter
    SP.RecordWriter = lambda path, **kw: Sub(path)
    try:
        w.write("R")
    finally:
        SP.RecordWriter = saved
    rotated = (written + 1 >= count)
    ok = cur.recs == ["R"] and 0 <= w.written < count
    if rotated:
        ok = ok and cur.closed and cur.flushed == 1 and w.writer is not cur and w.writer.recs == [] and w.written == 0 and w.file_count == file_count + 1
    else:
        ok = ok and (not cur.closed) and w.writer is cur and w.written == written + 1 and w.file_count == file_count
    return ok

class Con:
    def __init__(self, in_tx): self.in_transaction = in_tx; self.log = []
    def execute(self, sql, values=None):
        k = sql.split()[0].upper() if isinstance(sql, str) else "?"
        if k == "BEGIN":
            assert not self.in_transaction; self.in_transaction = True
        elif k == "COMMIT":
            assert self.in_transaction; self.in_transaction = False
        elif k == "INSERT":
            assert self.in_transaction
        self.log.append(k)
        class Cur:
            def fetchall(s): return []
        return Cur()
    def close(self): self.log.append("CLOSE")

D = RecordDescriptor("t/s", [("varint", "n")])
REC = D(1)

def sqlite_step(count: int, batch: int, seen: bool) -> bool:
    """
    post: _
    """
    if not (count >= 0 and 1 <= batch <= 6):
        return True
    w = object.__new__(SQ.SqliteWriter)
    w.descriptors_seen = {D} if seen else set()
    w.con = Con(True); w.count = count; w.batch_size = batch
    w.write(REC)
    log = w.con.log
    inserts = [i for i, k in enumerate(log) if k == "INSERT"]
    commit_after = "COMMIT" in log[inserts[0]:] if inserts else False
    exp_commit_after = ((count + 1) % batch == 0)
    return len(inserts) == 1 and w.con.in_transaction and w.count == count + 1 and commit_after == exp_commit_after and (seen or "CREATE" in log)
