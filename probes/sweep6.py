import warnings; warnings.simplefilter("ignore")
import os, tempfile, shutil, gzip, bz2, io, subprocess
import lz4.frame, zstandard
from flow.record import RecordDescriptor, RecordWriter, RecordReader
from flow.record.exceptions import RecordAdapterNotFound
D = RecordDescriptor("sweep/c", [("string", "s"), ("varint", "n")])
recs = [D(f"v{i}", i) for i in range(5)]
tmp = tempfile.mkdtemp(); problems = []
dec = {".gz": gzip.decompress, ".bz2": bz2.decompress, ".lz4": lz4.frame.decompress, ".zst": lambda b: zstandard.ZstdDecompressor().decompressobj().decompress(b), ".zstd": lambda b: zstandard.ZstdDecompressor().decompressobj().decompress(b), "": lambda b: b}
for cont in ("records", "avro"):
    for ext in dec:
        p = os.path.join(tmp, f"f.{cont}{ext}")
        try:
            with RecordWriter(p) as w:
                for r in recs: w.write(r)
        except Exception as e: problems.append(("WRITE", cont, ext, type(e).__name__, str(e)[:60])); continue
        raw = open(p, "rb").read()
        try: plain = dec[ext](raw)
        except Exception as e: problems.append(("STD-DECOMPRESS", cont, ext, type(e).__name__)); continue
        magic_ok = plain[:3] == b"Obj" if cont == "avro" else b"RECORDSTREAM\n" in plain[:19]
        if not magic_ok: problems.append(("MAGIC", cont, ext, plain[:20]))
        neutral = os.path.join(tmp, f"neutral_{cont}{ext.replace('.', '_')}.bin"); shutil.copy(p, neutral)
        for how, src in (("path", p), ("neutral", neutral), ("fileobj", None)):
            try:
                if how == "fileobj":
                    with open(p, "rb") as fh: got = [(r.s, r.n) for r in RecordReader(fileobj=fh)]
                else:
                    got = [(r.s, r.n) for r in RecordReader(src)]
                if got != [(r.s, r.n) for r in recs]: problems.append(("DIFF", cont, ext, how, got[:2]))
            except Exception as e: problems.append(("READ", cont, ext, how, type(e).__name__, str(e)[:70]))
for junk in (b"", b"hello world, this is not a stream", b"<sweep/c s='x'>", b"\x1f\x8b garbage", b"RECORDSTREAM\n", b"Obj\x01junk", gzip.compress(b"not records at all, really")):
    for how in ("fileobj", "path"):
        try:
            if how == "fileobj": got = list(RecordReader(fileobj=io.BytesIO(junk)))
            else:
                p = os.path.join(tmp, "junk.bin"); open(p, "wb").write(junk); got = list(RecordReader(p))
            problems.append(("JUNK-ACCEPTED", junk[:12], how, len(got)))
        except Exception as e:
            print("junk", junk[:12], how, "->", type(e).__name__, str(e)[:50])
shutil.rmtree(tmp)
for p in problems: print(p)
