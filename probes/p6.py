import prelude
import io, struct
from flow.record import RecordDescriptor, RecordStreamWriter, RecordStreamReader
import flow.record.stream as S

D = RecordDescriptor("test/rec", [("varint", "n"), ("string", "s")])
buf = io.BytesIO()
w = RecordStreamWriter(buf)
for i in range(3):
    w.write(D(i, "x" * i, _generated=0))
STREAM = buf.getvalue()
# frame boundaries
BOUNDS = []
pos = 0
while pos < len(STREAM):
    (n,) = struct.unpack(">I", STREAM[pos:pos+4]); pos += 4 + n; BOUNDS.append(pos)
FULL = list(RecordStreamReader(io.BytesIO(STREAM)))

class SymFile:
    def __init__(self, data, limit):
        self.data = data; self.pos = 0; self.limit = limit
    def read(self, n):
        end = self.pos + n
        if end > self.limit:
            end = self.limit
        d = self.data[self.pos:end]
        self.pos = end
        return d

def cut_prefix(cut: int) -> bool:
    """
    pre: 19 <= cut <= len(STREAM)
    post: _
    """
    rd = RecordStreamReader(SymFile(STREAM, cut))
    got = []
    try:
        for r in rd:
            got.append(r)
    except Exception:
        pass
    # number of complete record frames within cut: frames are header, desc, rec, rec, rec
    nfull = sum(1 for b in BOUNDS[2:] if b <= cut)
    return len(got) == nfull and all(g == f for g, f in zip(got, FULL))
