"""throwaway probe: translate the int branch of pack_obj and the VARINT branch of unpack_obj from the real AST into z3 BV terms"""
import ast, inspect, z3, time, textwrap
import flow.record.packer as P

W = 160   # bit width of the integer model; claim is for |v| < 2**136
src = inspect.getsource(P.RecordPacker)
cls = ast.parse(textwrap.dedent(src)).body[0]
fn = {f.name: f for f in cls.body if isinstance(f, ast.FunctionDef)}

def find_branch(func, pred):
    for node in ast.walk(func):
        if isinstance(node, ast.If) and pred(node.test):
            return node
    raise LookupError

# pack: `elif isinstance(obj, int):`
def is_isinstance_int(t):
    return isinstance(t, ast.Call) and getattr(t.func, "id", "") == "isinstance" and isinstance(t.args[1], ast.Name) and t.args[1].id == "int"
pack_branch = find_branch(fn["pack_obj"], is_isinstance_int)
def is_subtype_varint(t):
    return isinstance(t, ast.Compare) and isinstance(t.left, ast.Name) and t.left.id == "subtype" and getattr(t.comparators[0], "id", "") == "RECORD_PACK_TYPE_VARINT"
unpack_branch = find_branch(fn["unpack_obj"], is_subtype_varint)
print(ast.unparse(pack_branch.body)); print(ast.unparse(unpack_branch.body))

class Bytes:  # symbolic byte string of concrete length
    def __init__(self, bs): self.bs = bs
class Raise(Exception): pass

def ev(node, env, pc):
    """evaluate expression -> z3 BV(W) signed int | z3 Bool | Bytes | tuple | python constant"""
    if isinstance(node, ast.Constant): return node.value
    if isinstance(node, ast.Name):
        if node.id in env: return env[node.id]
        return getattr(P, node.id)
    if isinstance(node, ast.Tuple): return tuple(ev(e, env, pc) for e in node.elts)
    if isinstance(node, ast.Compare) and len(node.ops) == 1:
        a, b = ev(node.left, env, pc), ev(node.comparators[0], env, pc)
        a = z3.BitVecVal(a, W) if isinstance(a, int) else a; b = z3.BitVecVal(b, W) if isinstance(b, int) else b
        return {ast.Lt: lambda: a < b, ast.Gt: lambda: a > b, ast.Eq: lambda: a == b}[type(node.ops[0])]()
    if isinstance(node, ast.UnaryOp) and isinstance(node.op, ast.USub): return -ev(node.operand, env, pc)
    if isinstance(node, ast.BinOp):
        a, b = ev(node.left, env, pc), ev(node.right, env, pc)
        if isinstance(a, int) and isinstance(b, int): return eval(compile(ast.Expression(ast.BinOp(ast.Constant(a), node.op, ast.Constant(b))), "", "eval")) if False else {ast.Add: a+b, ast.FloorDiv: a//b if b else 0}[type(node.op)]
        raise NotImplementedError(ast.dump(node))
    if isinstance(node, ast.Call):
        f = node.func
        if isinstance(f, ast.Name) and f.id == "abs":
            x = ev(node.args[0], env, pc); return z3.If(x < 0, -x, x)
        if isinstance(f, ast.Attribute) and f.attr == "bit_length":
            return ("bitlen", ev(f.value, env, pc))
        if isinstance(f, ast.Attribute) and f.attr == "to_bytes":
            x = ev(f.value, env, pc); n = ev(node.args[0], env, pc); order = ev(node.args[1], env, pc)
            assert isinstance(n, int), "length must be concrete on this path"
            pc.append(z3.ULT(x, z3.BitVecVal(1, W) << (8*n)) if n*8 < W else z3.BoolVal(True))   # else OverflowError
            bs = [z3.Extract(7, 0, z3.LShR(x, 8*(n-1-i))) for i in range(n)]
            return Bytes(bs if order == "big" else bs[::-1])
        if isinstance(f, ast.Attribute) and f.attr == "from_bytes" and getattr(f.value, "id", "") == "int":
            h = ev(node.args[0], env, pc); order = ev(node.args[1], env, pc)
            bs = h.bs if order == "big" else h.bs[::-1]
            acc = z3.BitVecVal(0, W)
            for b in bs: acc = (acc << 8) | z3.ZeroExt(W-8, b)
            return acc
    raise NotImplementedError(ast.dump(node))

def run_pack(v, nbytes):
    """path: the magnitude needs exactly nbytes bytes (bit_length resolved by path forking on byte count)"""
    env = {"obj": v}; pc = []
    for st in pack_branch.body:
        tgt = st.targets[0]
        if isinstance(st.value, ast.Tuple) and isinstance(tgt, ast.Tuple):      # packed = TYPE, (neg, bytes)
            val = ev_with_bitlen(st.value, env, pc, nbytes)
            for t, x in zip(tgt.elts, val): env[t.id] = x
        else:
            env[tgt.id] = ev_with_bitlen(st.value, env, pc, nbytes)
    return env["packed"], pc

def ev_with_bitlen(node, env, pc, nbytes):
    # resolve `(v.bit_length() + 7) // 8` on a path where 256**(nbytes-1) <= v < 256**nbytes
    class T(ast.NodeTransformer):
        def visit_Call(self, n):
            self.generic_visit(n)
            if isinstance(n.func, ast.Attribute) and n.func.attr == "bit_length":
                return ast.Constant(value=("BL", ast.unparse(n.func.value)))
            return n
    node = T().visit(ast.parse(ast.unparse(node), mode="eval").body)
    def ev2(n):
        if isinstance(n, ast.Constant) and isinstance(n.value, tuple) and n.value[0] == "BL":
            x = env[n.value[1]]
            lo = 256**(nbytes-1) if nbytes else 0
            pc.append(z3.And(z3.UGE(x, lo), z3.ULT(x, 256**nbytes)))
            return "BL"
        return None
    # bit_length b satisfies 8(nbytes-1) < b <= 8 nbytes when nbytes>0, so (b+7)//8 == nbytes for every b in that range
    def fold(n):
        if isinstance(n, ast.BinOp) and isinstance(n.op, ast.FloorDiv) and isinstance(n.left, ast.BinOp) and ev2(n.left.left) == "BL":
            k = n.left.right.value; d = n.right.value
            vals = {(b + k)//d for b in (range(8*(nbytes-1)+1, 8*nbytes+1) if nbytes else [0])}
            assert len(vals) == 1, vals
            return ast.Constant(value=vals.pop())
        for fld, val in ast.iter_fields(n):
            if isinstance(val, ast.AST): setattr(n, fld, fold(val))
            elif isinstance(val, list): setattr(n, fld, [fold(x) if isinstance(x, ast.AST) else x for x in val])
        return n
    return ev(fold(node), env, pc)

tot = 0; t0 = time.time()
for nbytes in range(0, 18):
    for sign in (1, -1):
        v = z3.BitVec("v", W)
        s = z3.Solver()
        s.add(v > 0 if sign > 0 else v < 0) if nbytes else s.add(v == 0)
        packed, pc = run_pack(v, nbytes)
        subtype, (neg, h) = packed
        # unpack branch
        env = {"value": (neg, h)}; pc2 = []
        st0, st1, st2, st3 = unpack_branch.body   # neg, h = value ; v = int.from_bytes ; if neg: v = -v ; return v
        for t, x in zip(st0.targets[0].elts, ev(st0.value, env, pc2)): env[t.id] = x
        env[st1.targets[0].id] = ev(st1.value, env, pc2)
        cond = ev(st2.test, env, pc2); neg_v = ev(st2.body[0].value, env, pc2)
        out = z3.If(cond, neg_v, env["v"])
        s.add(*pc); s.add(out != v)
        r = s.check(); tot += 1
        assert str(r) == "unsat", (nbytes, sign, r, s.model() if str(r) == "sat" else None)
print("all unsat", tot, "queries", round(time.time()-t0, 2), "s; subtype", subtype)
