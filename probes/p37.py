import prelude, warnings
warnings.simplefilter("ignore")
from typing import Optional
from flow.record import RecordDescriptor

N = RecordDescriptor("t/norm", [("record", "a"), ("record", "b"), ("record[]", "c"), ("record", "d")])
K = RecordDescriptor("t/kw", [("record", "from"), ("record", "a"), ("record", "class"), ("record[]", "in")])

def slots_norm(a: int, b: Optional[int], c0: int, c1: int, clen: int, d: Optional[int], has_src: bool) -> bool:
    """
    post: _
    """
    if not (0 <= clen <= 2):
        return True
    c = [] if clen == 0 else ([c0] if clen == 1 else [c0, c1])
    rec = N(a, b, c, d, _source="S" if has_src else None, _generated=1)
    ident, values = rec._pack()
    back = N.recordType._unpack(*values)
    return (back.a == a and ((b is None and back.b is None) or back.b == b) and list(back.c) == c and ((d is None and back.d is None) or back.d == d)
            and back._source == rec._source and back._classification is None and back._generated == rec._generated and back._version == 1 and ident == N.identifier)

def slots_kw(f: int, a: Optional[int], k: int, i0: int, ilen: int) -> bool:
    """
    post: _
    """
    if not (0 <= ilen <= 1):
        return True
    il = [i0] if ilen == 1 else []
    rec = K(f, a, k, il, _generated=1)
    ident, values = rec._pack()
    back = K.recordType._unpack(*values)
    g = lambda r, n: getattr(r, n)
    return (g(back, "from") == f and ((a is None and back.a is None) or back.a == a) and g(back, "class") == k and list(g(back, "in")) == il
            and back._generated == rec._generated and back._version == 1)
