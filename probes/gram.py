"""throwaway: size of the selector grammar at depth 1/2 (atoms typed so that only well-typed programs are generated)"""
import itertools
INT_ATOMS = ["r.n", "r.m", "3", "0", "r.o"]            # r.o is Optional[int]
STR_ATOMS = ["r.s", "r.t", "'ab'", "''"]
BOOL_ATOMS = ["r.b", "True"]
CMP = ["==", "!=", "<", "<=", ">", ">="]
def int_exprs(d):
    yield from INT_ATOMS
    if d > 0:
        for op in ["+", "*", "%", "&", "|"]:
            for a, b in itertools.product(INT_ATOMS[:3], INT_ATOMS[:4]):
                yield f"({a} {op} {b})"
def str_exprs(d):
    yield from STR_ATOMS
    if d > 0:
        for a, b in itertools.product(STR_ATOMS[:3], STR_ATOMS[:3]): yield f"({a} + {b})"
        for f in ("lower", "upper", "str"):
            for a in STR_ATOMS[:3]: yield f"{f}({a})"
def preds(d):
    """boolean-valued expressions of depth d"""
    out = []
    ie = list(int_exprs(d - 1)); se = list(str_exprs(d - 1))
    for op in CMP:
        for a, b in itertools.product(ie, ie[:6]): out.append(f"{a} {op} {b}")
        for a, b in itertools.product(se, se[:5]): out.append(f"{a} {op} {b}")
    for op1, op2 in itertools.product(CMP, CMP):                       # chains
        for a, b, c in itertools.product(INT_ATOMS[:3], INT_ATOMS[:3], INT_ATOMS[2:4]): out.append(f"{a} {op1} {b} {op2} {c}")
    for neg in ("in", "not in"):
        for a in ie[:5]: out.append(f"{a} {neg} [1, r.m, 3]"); out.append(f"{a} {neg} (r.n, 2)")
        for a in se[:4]: out.append(f"{a} {neg} ['ab', r.t]"); out.append(f"{a} {neg} r.s"); out.append(f"{a} {neg} 'xaby'")
    out += ["r.b", "not r.b", "r.o is None", "r.o is not None", "r.s", "not r.s", "r.n", "not r.n"]
    for t, v in (("string", "'ab'"), ("varint", "3")):
        for op in CMP: out.append(f"Type.{t} {op} {v}")
        out.append(f"{v} in Type.{t}" if t == "string" else f"Type.{t} in [1, 3]")
    out += ["name(r) == 'test/rec'", "'test/rec' in names(r)", "has_field(r, 's')", "has_field(r, 'zz')",
            "field_equals(r, ['s', 't', 'zz'], ['ab'])", "field_equals(r, ['s'], ['AB'], nocase=False)", "field_contains(r, ['s', 'zz'], ['a', 'b'], nocase=False)",
            "field_contains(r, ['s'], ['ab'], word_boundary=True)", "field_regex(r, ['s', 't'], 'a+b')",
            "any(x == r.n for x in [1, 2, r.m])", "all(x != r.s for x in ['ab', r.t])", "any(x in r.s for x in ['a', r.t])",
            "net.ipaddress('1.2.3.4') in net.ipnetwork('1.2.0.0/16')"]
    return out
p1 = preds(1); p2 = preds(2)
def bool_combos(ps, sample):
    out = list(ps)
    for a, b in sample:
        out.append(f"{a} and {b}"); out.append(f"{a} or {b}"); out.append(f"not ({a})")
    return out
print("depth-1 predicates:", len(p1), "depth-2 predicates:", len(p2))
import random; random.seed(0)
pairs = [(random.choice(p1), random.choice(p1)) for _ in range(300)]
print("with 300 boolean pairs:", len(bool_combos(p1, pairs)))
for e in random.sample(p2, 8): print("  ", e)
import ast
bad = [e for e in p2 if not ast.parse(e, mode="eval")]
