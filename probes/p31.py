import prelude, warnings, io, csv, datetime as dt
warnings.simplefilter("ignore")
import flow.record.fieldtypes as FT
from flow.record.packer import RecordPacker

def dt_roundtrip(y: int, mo: int, d: int, h: int, mi: int, s: int, us: int, off: int) -> bool:
    """
    post: _
    """
    if not (1 <= y <= 9999 and 1 <= mo <= 12 and 1 <= d <= 28 and 0 <= h < 24 and 0 <= mi < 60 and 0 <= s < 60 and 0 <= us < 10**6 and -86399 <= off <= 86399):
        return True
    tz = dt.timezone(dt.timedelta(seconds=off))
    v = FT.datetime(y, mo, d, h, mi, s, us, tz)
    pk = RecordPacker()
    w = pk.unpack(pk.pack(v))
    return (w.year, w.month, w.day, w.hour, w.minute, w.second, w.microsecond, w.utcoffset()) == (y, mo, d, h, mi, s, us, dt.timedelta(seconds=off))

def csv_cell(cell: str) -> bool:
    """
    post: _
    """
    if len(cell) > 3:
        return True
    out = io.StringIO()
    w = csv.DictWriter(out, ["a", "b"], lineterminator="\r\n"); w.writeheader(); w.writerow({"a": cell, "b": "x"})
    rows = list(csv.reader(io.StringIO(out.getvalue(), newline="")))
    return rows[1] == [cell, "x"]
