import prelude, argparse
from flow.record import RecordDescriptor
import flow.record.tools.rdump as RD

D = RecordDescriptor("test/rec", [("varint", "n")])
RECS = [D(i, _generated=0) for i in range(5)]

def model_islice(it, start, stop):
    i = 0
    for x in it:
        if stop is not None and i >= stop:
            break
        if i >= start:
            yield x
        i += 1

class Collect:
    def __init__(self, uri): self.out = []; self.closed = False; OUT.append(self)
    def write(self, r): self.out.append(r)
    def flush(self): pass
    def close(self): self.closed = True
    def __exit__(self, *a): self.flush(); self.close()
OUT = []

def slice_ok(skip: int, count: int) -> bool:
    """
    pre: 0 <= skip <= 7 and 1 <= count <= 7
    post: _
    """
    del OUT[:]
    orig_parse = argparse.ArgumentParser.parse_args
    def parse(self, argv=None):
        ns = orig_parse(self, argv); ns.skip = skip; ns.count = count; return ns
    argparse.ArgumentParser.parse_args = parse
    saved = (RD.islice, RD.record_stream, RD.RecordWriter)
    RD.islice = model_islice
    RD.record_stream = lambda src, sel: iter(RECS)
    RD.RecordWriter = Collect
    try:
        RD.main.__wrapped__(["x.records"])
    finally:
        argparse.ArgumentParser.parse_args = orig_parse
        RD.islice, RD.record_stream, RD.RecordWriter = saved
    got = OUT[0].out
    exp = RECS[skip:skip + count]
    return len(got) == len(exp) and all(g is e for g, e in zip(got, exp)) and OUT[0].closed
