import prelude, io, warnings
warnings.simplefilter("ignore")
from flow.record import RecordDescriptor, RecordStreamWriter, RecordStreamReader, GroupedRecord

A = RecordDescriptor("t/x", [("stringlist","a"),("string","b")])
B = RecordDescriptor("t/x", [("string","a"),("string","listb")])   # identifier collides with A
C = RecordDescriptor("t/x", [("string","c")])                       # same name, other fields
H = RecordDescriptor("t/h", [("record","inner"),("varint","k")])     # nested holder
def mk(i):
    if i == 0: return A(["p"], "q", _generated=0)
    if i == 1: return B("r", "s", _generated=0)
    if i == 2: return C("z", _generated=0)
    if i == 3: return H(C("in", _generated=0), 7, _generated=0)
    return GroupedRecord("g/r", [C("g1", _generated=0), H(None, 1, _generated=0)])

class NoClose(io.BytesIO):
    def close(self): pass

def obs(r):
    if isinstance(r, GroupedRecord):
        return ("G", r.name, tuple(obs(x) for x in r.records))
    return (r._desc.name, r._desc.get_field_tuples(), tuple(obs(v) if hasattr(v, "_desc") else (type(v).__name__, repr(v)) for v in (getattr(r, f) for f in r._desc.fields)))

def history(c0: int, c1: int, c2: int, w0: bool, w1: bool, w2: bool) -> bool:
    """
    pre: 0 <= c0 < 5 and 0 <= c1 < 5 and 0 <= c2 < 5
    post: _
    """
    bufs = [NoClose(), NoClose()]
    ws = [RecordStreamWriter(b) for b in bufs]
    written = [[], []]
    for c, w in ((c0, w0), (c1, w1), (c2, w2)):
        rec = mk(c); i = 1 if w else 0
        ws[i].write(rec); written[i].append(obs(rec))
    for i in (0, 1):
        ws[i].flush()
        got = [obs(r) for r in RecordStreamReader(io.BytesIO(bufs[i].getvalue()))]
        if got != written[i]:
            return False
    return True
