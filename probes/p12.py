import prelude, ast
from flow.record import RecordDescriptor
from flow.record.selector import Selector, RecordContextMatcher, InvalidOperation

CALLS = []
class Canary(str):
    def upper(self): CALLS.append("upper"); return "X"
    def boom(self): CALLS.append("boom"); return "X"

D = RecordDescriptor("test/rec", [("record", "s"), ("varint", "n")])   # 'record' type = pass-through carrier

NAMES = ["r", "lower", "upper", "str", "x"]
ATTRS = ["s", "upper", "boom", "lower", "n"]

def target(k: int, a: int, b: int, depth: int):
    # call-target shapes
    if depth == 0 or k == 0:
        return ast.Name(id=NAMES[a % 5], ctx=ast.Load())
    if k == 1:
        return ast.Attribute(value=target(b % 5, a // 5, b // 5, depth - 1), attr=ATTRS[a % 5], ctx=ast.Load())
    if k == 2:  # call result
        return ast.Call(func=ast.Name(id="lower", ctx=ast.Load()), args=[target(b % 5, a // 5, b // 5, depth - 1)], keywords=[])
    if k == 3:
        return ast.Constant(value="abc")
    return ast.BinOp(left=ast.Constant(value="a"), op=ast.Add(), right=ast.Constant(value="b"))

def sandbox(k: int, a: int, b: int) -> bool:
    """
    pre: 0 <= k < 5 and 0 <= a < 625 and 0 <= b < 625
    post: _
    """
    t = target(k, a, b, 3)
    call = ast.Call(func=t, args=[], keywords=[])
    expr = ast.Expression(body=call)
    ast.fix_missing_locations(expr)
    src = ast.unparse(expr)
    rec = D(Canary("abc"), 1)
    del CALLS[:]
    try:
        Selector(src).match(rec)
    except Exception:
        pass
    return not CALLS
