import warnings; warnings.simplefilter("ignore")
import itertools, datetime as dt
from flow.record import RecordDescriptor, GroupedRecord
from flow.record.stream import RecordFieldRewriter
UTC = dt.timezone.utc
problems = []
A = RecordDescriptor("c/a", [("string", "s"), ("varint", "n"), ("uint16", "p")])
B = RecordDescriptor("c/b", [("varint", "n"), ("string", "other"), ("datetime", "t")])
a = A("x", 1, 80, _source="sa"); b = B(2, "o", dt.datetime(2020, 1, 1, tzinfo=UTC), _source="sb")
# _replace
for kw in ({"s": "y"}, {"n": 5, "p": 443}, {}, {"_source": "new"}, {"p": 70000}, {"zz": 1}, {"s": None}):
    before = a._pack()
    try:
        r = a._replace(**kw)
        exp = {k: getattr(a, k) for k in a.__slots__}; exp.update(kw)
        bad = [k for k in a.__slots__ if k not in ("_generated", "_version") and getattr(r, k) != exp[k]]
        if bad or r._desc is not a._desc: problems.append(("replace", kw, bad))
    except (ValueError, TypeError) as e:
        if not ({"zz", "p"} & set(kw)): problems.append(("replace EXC", kw, type(e).__name__, str(e)))
    if a._pack() != before: problems.append(("replace mutated original", kw))
# grouped
g = GroupedRecord("g/x", [a, b])
exp_fields = ["s", "n", "p", "other", "t"]
if [f.name for f in g.flat_fields] != exp_fields: problems.append(("grouped fields", [f.name for f in g.flat_fields]))
if g.n != 1 or g.other != "o" or g._source != "sa": problems.append(("grouped first wins", g.n, g.other, g._source))
if list(g._asdict().keys())[:4] != ["s", "n", "p", "_source"]: print("asdict order", list(g._asdict().keys()))
g2 = g._replace(other="q", s="z")
if (g2.other, g2.s, g2.n, g.other, g.s) != ("q", "z", 1, "o", "x"): problems.append(("grouped replace", g2.other, g2.s, g2.n, g.other, g.s))
print("grouped replace second-record n:", g2.records[1].n, "(original b.n =", b.n, ")")
g.other = "w"
if b.other != "w": problems.append(("grouped setattr routing", b.other))
# rewriter
for fields, exclude in itertools.product(([], ["n"], ["p", "s"], ["zz", "n"], ["n", "n"]), ([], ["n"], ["s", "zz"])):
    rw = RecordFieldRewriter(fields, exclude, None)
    out = rw.rewrite(a)
    if fields: exp = [f for f in dict.fromkeys(fields) if f in ("s", "n", "p") and f not in exclude] if True else None
    else: exp = [f for f in ("s", "n", "p") if f not in exclude]
    got = list(out._desc.fields)
    vals_ok = all(getattr(out, f) == getattr(a, f) for f in got) and out._source == a._source
    if fields and len(fields) != len(set(fields)):
        print("dup fields", fields, exclude, "->", got)
    elif got != exp or not vals_ok: problems.append(("rewriter", fields, exclude, got, exp))
print(len(problems), "problems")
for p in problems: print(p)
