import prelude, time, sys, warnings
warnings.simplefilter("ignore")
from crosshair.core_and_libs import analyze_function, run_checkables
from crosshair.options import AnalysisOptionSet
from flow.record import RecordDescriptor
from flow.record.selector import Selector, CompiledSelector
import flow.record.selector as SEL

D = RecordDescriptor("test/rec", [("varint", "n"), ("string", "s"), ("varint", "m"), ("string", "t"), ("boolean", "b")])
class R: pass

def ref_ns(rec, r):
    return {"r": r, "lower": lambda s: s.lower() if isinstance(s, str) else s, "upper": lambda s: s.upper() if isinstance(s, str) else s,
            "name": lambda x: "test/rec", "has_field": lambda x, f: f in ("n", "s", "m", "t", "b")}

def make_check(expr, engine):
    sel = Selector(expr) if engine == "i" else CompiledSelector(expr)
    def check(n: int, s: str, m: int, t: str, b: bool) -> bool:
        """
        post: _
        """
        if len(s) > 3 or len(t) > 3:
            return True
        rec = D(0, "", 0, "", False)
        for k, v in (("n", n), ("s", s), ("m", m), ("t", t), ("b", b)):
            object.__setattr__(rec, k, v)
        r = R(); r.n = n; r.s = s; r.m = m; r.t = t; r.b = b
        try:
            exp = bool(eval(expr, ref_ns(rec, r)))
        except (ZeroDivisionError, TypeError):
            return True
        return bool(sel.match(rec)) == exp
    return check

exprs = [
 "r.s in ['a', 'bc', r.t]", "r.n in (1, 2, r.m)", "r.n not in [1, r.m]", "'a' in r.s", "r.t in r.s", "r.s + r.t == 'ab'",
 "lower(r.s) == 'ab'", "upper(r.s) == r.t", "r.n * 2 == r.m", "r.n / 2 == r.m", "r.n % 3 == 1", "r.n & 3 == r.m | 1",
 "r.b and r.n > 1", "not r.b or r.s", "r.s and r.t", "r.n or r.m", "r.b == True", "r.b is True", "r.s is None",
 "name(r) == 'test/rec'", "has_field(r, 's')", "str(r.n) == '12'", "r.n == 1 or r.n == 2 or r.n == 3", "(r.n, r.m) == (1, 2)", "[r.n] == [r.m]",
 "any(x == r.n for x in [1, 2, r.m])", "all(len(x) > 1 for x in [r.s, r.t])", "r.s.startswith('a')" ,
]
opts = AnalysisOptionSet(per_condition_timeout=float(sys.argv[1]) if len(sys.argv) > 1 else 8, report_all=True)
tot = time.time()
for e in exprs:
    for eng in "ic":
        t1 = time.time()
        try:
            msgs = list(run_checkables(analyze_function(make_check(e, eng), opts)))
            res = [(m.state.name, m.message[:90]) for m in msgs]
        except BaseException as ex:
            res = ["ENGINE-ERR " + type(ex).__name__ + str(ex)[:80]]
        print(f"{time.time()-t1:5.1f}s {eng} {e!r}: {res}", flush=True)
print("total", time.time() - tot)
