import prelude, warnings, collections, types
warnings.simplefilter("ignore")
from typing import Optional
import flow.record.packer as P
from flow.record import RecordDescriptor, GroupedRecord, Record
from flow.record.packer import RecordPacker

class Ext:
    def __init__(self, code, data): self.code = code; self.data = data
class TreeTransport:
    """tree-level model of msgpack.packb/unpackb: native types pass, everything else goes through default / ext_hook"""
    @staticmethod
    def packb(obj, default=None, **kw):
        def walk(o):
            if o is None or isinstance(o, (bool, str, bytes, float)): return o
            if isinstance(o, int):
                if -(2**63) <= o < 2**64: return o
                return walk(default(o))
            if isinstance(o, Ext): return Ext(o.code, o.data)
            if isinstance(o, (list, tuple)): return tuple(walk(x) for x in o)   # arrays (reader uses use_list=False)
            if isinstance(o, dict): return {walk(k): walk(v) for k, v in o.items()}
            return walk(default(o))
        return walk(obj)
    @staticmethod
    def unpackb(data, ext_hook=None, **kw):
        def walk(o):
            if isinstance(o, Ext): return ext_hook(o.code, o.data)
            if isinstance(o, tuple): return tuple(walk(x) for x in o)
            if isinstance(o, dict): return {walk(k): walk(v) for k, v in o.items()}
            return o
        return walk(data)
import functools
P.msgpack = types.SimpleNamespace(ExtType=Ext)
P.packb = functools.partial(TreeTransport.packb)
P.unpackb = functools.partial(TreeTransport.unpackb)

INNER = RecordDescriptor("t/inner", [("record", "v"), ("record", "w")])
HOLD = RecordDescriptor("t/hold", [("record", "inner"), ("record[]", "many"), ("record", "x")])
OTHER = RecordDescriptor("t/other", [("record", "v")])

def obs(r):
    if isinstance(r, GroupedRecord): return ("G", r.name, [obs(x) for x in r.records])
    if isinstance(r, Record): return (r._desc.name, r._desc.get_field_tuples(), [obs(getattr(r, k)) for k in r.__slots__ if k != "_generated"])
    if isinstance(r, list): return [obs(x) for x in r]
    return r

def nested(a: int, b: Optional[int], c: int, big: int, shape: int) -> bool:
    """
    post: _
    """
    if not (0 <= shape < 4) or not all(-(2**63) <= q < 2**64 for q in (a, c, big)) or (b is not None and not -(2**63) <= b < 2**64):
        return True
    i1 = INNER(a, b, _generated=1); i2 = INNER(c, big, _generated=1)
    if shape == 0: rec = HOLD(i1, [], c, _generated=1)
    elif shape == 1: rec = HOLD(None, [i1, i2], big, _generated=1)
    elif shape == 2: rec = GroupedRecord("g/x", [i1, OTHER(c, _generated=1)])
    else: rec = GroupedRecord("g/y", [HOLD(i2, [i1], a, _generated=1), OTHER(big, _generated=1)])
    frames = []
    wpk = RecordPacker(); wpk.on_descriptor.add_handler(lambda d: frames.append(wpk.pack(d)))
    frames.append(wpk.pack(rec))
    rpk = RecordPacker(); out = None
    for f in frames:
        o = rpk.unpack(f)
        if hasattr(o, "recordType"): rpk.register(o)
        else: out = o
    return obs(out) == obs(rec)
