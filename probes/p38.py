import prelude, warnings
warnings.simplefilter("ignore")
from flow.record import RecordDescriptor
from flow.record.adapter.jsonfile import JsonfileReader
from flow.record.adapter.csvfile import CsvfileReader
from flow.record.adapter.avro import AvroReader

D = RecordDescriptor("test/rec", [("varint", "n")])
RECS = [D(i, _generated=1) for i in range(4)]
CD = RecordDescriptor("csv/reader", [("string", "n")])

class Sel:
    def __init__(self, outcomes): self.outcomes = outcomes; self.i = 0; self.seen = []
    def match(self, rec):
        self.seen.append(rec); b = self.outcomes[self.i]; self.i += 1; return b

def json_loop(b0: bool, b1: bool, b2: bool, b3: bool) -> bool:
    """
    post: _
    """
    outs = [b0, b1, b2, b3]
    rd = object.__new__(JsonfileReader); rd.selector = Sel(outs)
    rd.fp = ["d", "0", "1", "d", "2", "3"]          # lines; 'd' stands for a descriptor line
    class P:
        def unpack(self, line): return D if line == "d" else RECS[int(line)]
    rd.packer = P()
    got = list(rd)
    exp = [r for r, b in zip(RECS, outs) if b]
    return len(got) == len(exp) and all(g is e for g, e in zip(got, exp)) and len(rd.selector.seen) == 4

def avro_loop(b0: bool, b1: bool, b2: bool, b3: bool) -> bool:
    """
    post: _
    """
    outs = [b0, b1, b2, b3]
    rd = object.__new__(AvroReader); rd.selector = Sel(outs); rd.desc = D; rd.datetime_fields = set()
    rd.reader = [{"n": i} for i in range(4)]
    got = list(rd)
    exp = [i for i, b in zip(range(4), outs) if b]
    return [r.n for r in got] == exp and [r.n for r in rd.selector.seen] == [0, 1, 2, 3]

def csv_loop(b0: bool, b1: bool, b2: bool, b3: bool) -> bool:
    """
    post: _
    """
    outs = [b0, b1, b2, b3]
    rd = object.__new__(CsvfileReader); rd.selector = Sel(outs); rd.desc = CD; rd.fields = ["n"]
    rd.reader = [[str(i)] for i in range(4)]
    got = list(rd)
    exp = [str(i) for i, b in zip(range(4), outs) if b]
    return [r.n for r in got] == exp and [r.n for r in rd.selector.seen] == ["0", "1", "2", "3"]
