import prelude, warnings, types
warnings.simplefilter("ignore")
from typing import Optional
import flow.record.packer as P
from flow.record import RecordDescriptor
from flow.record.packer import RecordPacker, RECORD_PACK_EXT_TYPE, RECORD_PACK_TYPE_RECORD

D = RecordDescriptor("t/c", [("record", "a"), ("record", "b")])
P.unpackb = lambda d, **kw: d          # tree-level transport: the frame body *is* the (subtype, value) tree

def compat(a: int, b: Optional[int], has_src: bool, has_cls: bool, extra: int, has_version: bool, e1: int, e2: int, e3: int) -> bool:
    """
    post: _
    """
    if not (0 <= extra <= 3):
        return True
    gen = None
    src = 'SRC' if has_src else None; cls = 'CLS' if has_cls else None
    values = [a, b, src, cls, gen] + [e1, e2, e3][:extra]
    if has_version:
        values.append(1)
    elif extra:
        return True      # per the format, a record with extra reserved fields always carries a version
    pk = RecordPacker(); pk.register(D)
    rec = pk.unpack_obj(RECORD_PACK_EXT_TYPE, (RECORD_PACK_TYPE_RECORD, (D.identifier, tuple(values))))
    return rec._desc is D and rec.a == a and ((rec.b is None and b is None) or rec.b == b) and rec._source == src and rec._classification == cls and rec._version == 1
