"""throwaway probe: string kernels from the real AST -> z3 String terms"""
import ast, inspect, textwrap, z3, time
import flow.record.base as B

def fn_ast(f):
    return ast.parse(textwrap.dedent(inspect.getsource(f))).body[0]

class Raise(Exception):
    def __init__(self, exc): self.exc = exc

def sv(x): return z3.StringVal(x) if isinstance(x, str) else x

def ev(node, env):
    if isinstance(node, ast.Constant): return node.value
    if isinstance(node, ast.Name):
        return env[node.id] if node.id in env else getattr(B, node.id)
    if isinstance(node, ast.BinOp) and isinstance(node.op, ast.Add):
        return z3.Concat(sv(ev(node.left, env)), sv(ev(node.right, env)))
    if isinstance(node, ast.JoinedStr):
        parts = []
        for v in node.values:
            parts.append(sv(ev(v.value, env)) if isinstance(v, ast.FormattedValue) else z3.StringVal(v.value))
        return parts[0] if len(parts) == 1 else z3.Concat(*parts)
    if isinstance(node, ast.Call) and isinstance(node.func, ast.Attribute) and node.func.attr == "join":
        sep = ev(node.func.value, env); gen = node.args[0]
        assert isinstance(gen, ast.GeneratorExp) and len(gen.generators) == 1
        g = gen.generators[0]; items = ev(g.iter, env)
        out = []
        for it in items:
            e2 = dict(env)
            if isinstance(g.target, ast.Tuple):
                for t, x in zip(g.target.elts, it): e2[t.id] = x
            else: e2[g.target.id] = it
            out.append(sv(ev(gen.elt, e2)))
        res = []
        for i, o in enumerate(out):
            if i and sep != "": res.append(z3.StringVal(sep))
            res.append(o)
        return z3.Concat(*res) if len(res) > 1 else (res[0] if res else z3.StringVal(""))
    if isinstance(node, ast.Call) and isinstance(node.func, ast.Attribute) and node.func.attr == "endswith":
        return z3.SuffixOf(sv(ev(node.args[0], env)), sv(ev(node.func.value, env)))
    if isinstance(node, ast.Subscript) and isinstance(node.slice, ast.Slice):
        s = sv(ev(node.value, env)); sl = node.slice
        assert sl.lower is None and isinstance(sl.upper, ast.UnaryOp)
        k = sl.upper.operand.value
        return z3.SubString(s, 0, z3.Length(s) - k)
    if isinstance(node, ast.Compare) and isinstance(node.ops[0], ast.NotIn):
        x = sv(ev(node.left, env)); lst = ev(node.comparators[0], env)
        return z3.Not(z3.Or([x == z3.StringVal(w) for w in lst]))
    raise NotImplementedError(ast.dump(node)[:200])

# 1. hash input
f = fn_ast(B.RecordDescriptor.calc_descriptor_hash.__wrapped__)
assign = [st for st in f.body if isinstance(st, ast.Assign) and st.targets[0].id == "data"][0]
name = z3.String("name"); t1, n1, t2, n2 = z3.Strings("t1 n1 t2 n2")
data = ev(assign.value, {"name": name, "fields": ((t1, n1), (t2, n2))})
s = z3.Solver(); s.add(data != z3.Concat(name, n1, t1, n2, t2))
t = time.time(); print("hash input == spec:", s.check(), round(time.time() - t, 3))

# 2. fieldtype guard: path-forking over the prefix up to the whitelist raise
f = fn_ast(B.fieldtype.__wrapped__)
clspath = z3.String("clspath")
paths = [([], {"clspath": clspath})]
accepted = []
for st in f.body:
    if isinstance(st, ast.Expr): continue          # docstring
    new = []
    for pc, env in paths:
        if isinstance(st, ast.Assign):
            env = dict(env); env[st.targets[0].id] = ev(st.value, env); new.append((pc, env))
        elif isinstance(st, ast.If):
            c = ev(st.test, env)
            for cond, body in ((c, st.body), (z3.Not(c), st.orelse)):
                e2 = dict(env); raised = False
                for b in body:
                    if isinstance(b, ast.Assign): e2[b.targets[0].id] = ev(b.value, e2)
                    elif isinstance(b, ast.Raise): raised = True
                    else: raise NotImplementedError(ast.dump(b)[:100])
                if not raised: new.append((pc + [cond], e2))
        else:
            raise NotImplementedError(ast.dump(st)[:100])
    paths = new
    if isinstance(st, ast.If) and "WHITELIST" in ast.unparse(st.test):
        break
print("paths surviving the guard:", len(paths), "stopped at:", ast.unparse(st)[:60])
ok = z3.Or([z3.Or(clspath == w, clspath == w + "[]") for w in B.WHITELIST])
for pc, env in paths:
    s = z3.Solver(); s.add(*pc); s.add(z3.Not(ok))
    t = time.time(); print("  accepted ⇒ whitelisted:", s.check(), round(time.time() - t, 3), "islist" , env.get("islist"))
