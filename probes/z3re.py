import z3, time, re
try:
    import re._parser as sre_parse, re._constants as C
except ImportError:
    import sre_parse, sre_constants as C
import flow.record.base as B

ANY = z3.AllChar(z3.ReSort(z3.StringSort()))
def cls_to_re(items):
    neg = False; parts = []
    for op, av in items:
        if op is C.NEGATE: neg = True
        elif op is C.LITERAL: parts.append(z3.Re(chr(av)))
        elif op is C.RANGE: parts.append(z3.Range(chr(av[0]), chr(av[1])))
        else: raise NotImplementedError(op)
    r = parts[0] if len(parts)==1 else z3.Union(*parts)
    return z3.Intersect(ANY, z3.Complement(r)) if neg else r

def seq_to_re(seq, at_end):
    """returns z3 regex for a parsed sequence; supports ^ at start and $ at the very end (Python semantics: end or before final newline)"""
    items = list(seq)
    res = []
    for i,(op, av) in enumerate(items):
        if op is C.AT:
            if av is C.AT_BEGINNING and i == 0: continue
            if av is C.AT_END and i == len(items)-1 and at_end:
                res.append(z3.Option(z3.Re("\n"))); continue
            if av is C.AT_END_STRING and i == len(items)-1 and at_end: continue
            raise NotImplementedError((op,av,i))
        elif op is C.LITERAL: res.append(z3.Re(chr(av)))
        elif op is C.IN: res.append(cls_to_re(av))
        elif op is C.MAX_REPEAT:
            lo, hi, sub = av
            r = seq_to_re(sub, False)
            if lo==0 and hi==C.MAXREPEAT: res.append(z3.Star(r))
            elif lo==1 and hi==C.MAXREPEAT: res.append(z3.Plus(r))
            elif lo==0 and hi==1: res.append(z3.Option(r))
            else: res.append(z3.Loop(r, lo, hi))
        elif op is C.SUBPATTERN:
            res.append(seq_to_re(av[3], False))
        else: raise NotImplementedError(op)
    if not res: return z3.Re("")
    return res[0] if len(res)==1 else z3.Concat(*res)

def pat_to_re(p):  # for re.match semantic: prefix match! need pattern to end with $ for full; else append .*
    parsed = sre_parse.parse(p.pattern, p.flags)
    items = list(parsed)
    ends = items and items[-1][0] is C.AT and items[-1][1] in (C.AT_END, C.AT_END_STRING)
    r = seq_to_re(parsed, True)
    if not ends: r = z3.Concat(r, z3.Star(ANY))
    return r

L = z3.Union(z3.Range("a","z"), z3.Range("A","Z")); LD = z3.Union(L, z3.Range("0","9"), z3.Re("_"))
IDENT = z3.Concat(L, z3.Star(LD))
NAME = z3.Concat(IDENT, z3.Star(z3.Concat(z3.Re("/"), IDENT)))
s = z3.String("s")
def q(impl, ref, extra=None):
    sol = z3.Solver(); sol.set("timeout", 30000)
    sol.add(z3.InRe(s, impl), z3.Not(z3.InRe(s, ref)))
    if extra is not None: sol.add(extra)
    t = time.time(); r = sol.check(); dt = time.time()-t
    return str(r), (sol.model()[s] if str(r)=="sat" else None), round(dt,3)
F = pat_to_re(B.RE_VALID_FIELD_NAME); T = pat_to_re(B.RE_VALID_RECORD_TYPE_NAME)
USIDENT = z3.Concat(z3.Option(z3.Re("_")), IDENT)
print("field ⊆ _?ident :", q(F, USIDENT))
print("field ⊆ _?ident(\\n)? :", q(F, z3.Concat(USIDENT, z3.Option(z3.Re("\n")))))
print("_?ident ⊆ field :", q(USIDENT, F))
print("type ⊆ name :", q(T, NAME))
print("type ⊆ name(\\n)? :", q(T, z3.Concat(NAME, z3.Option(z3.Re("\n")))))
print("name ⊆ type :", q(NAME, T))
# mutated: drop anchors / allow unicode
M = pat_to_re(re.compile(r"^_?[a-zA-Z][a-zA-Z0-9_]*"))
print("mut(no $) :", q(M, z3.Concat(USIDENT, z3.Option(z3.Re("\n")))))
print("quote-free :", q(T, z3.Complement(z3.Concat(z3.Star(ANY), z3.Re('"'), z3.Star(ANY)))))
