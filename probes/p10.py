import prelude
import flow.record.base as B

class Tag:
    def __init__(self, kind, fp): self.kind = kind; self.fp = fp
    def peek(self, n): return self.fp.peek(n)

class FakeFP:
    def __init__(self, data): self.data = data
    def peek(self, n): return self.data

class Z: 
    class ZstdDecompressor:
        def stream_reader(self, fp): return Tag("zstd", fp)
class G:
    @staticmethod
    def GzipFile(fileobj=None, mode=None): return Tag("gzip", fileobj)
class BZ:
    @staticmethod
    def BZ2File(fp, mode=None): return Tag("bz2", fp)
class L:
    @staticmethod
    def open(fp, mode=None): return Tag("lz4", fp)

B.gzip = G; B.bz2 = BZ; B.lz4 = L; B.zstd = Z

def spec(data: bytes) -> str:
    if data[:2] == b"\x1f\x8b": return "gzip"
    if data[:3] == b"BZh": return "bz2"
    if data[:4] == b"\x04\x22\x4d\x18": return "lz4"
    if data[:4] == b"\x28\xb5\x2f\xfd": return "zstd"
    return "raw"

def sniff(data: bytes) -> bool:
    """
    pre: len(data) <= 6
    post: _
    """
    fp = FakeFP(data)
    out = B.open_stream(fp, "rb")
    kind = out.kind if isinstance(out, Tag) else "raw"
    return kind == spec(data)
