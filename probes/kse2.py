"""throwaway: find_adapter_for_stream decision from the real AST over a symbolic byte prefix (bytes as z3 strings of code points 0..255)"""
import ast, inspect, textwrap, z3, time
import flow.record.base as B
f = ast.parse(textwrap.dedent(inspect.getsource(B.find_adapter_for_stream))).body[0]
data = z3.String("peek")
def bv(b): return z3.StringVal("".join(chr(x) for x in b))
def ev(n, env):
    if isinstance(n, ast.Constant): return n.value
    if isinstance(n, ast.Name): return env[n.id] if n.id in env else getattr(B, n.id)
    if isinstance(n, ast.Subscript):
        s = ev(n.value, env); up = ev(n.slice.upper, env); assert n.slice.lower is None
        return z3.SubString(s, 0, z3.If(z3.Length(s) < up, z3.Length(s), up))
    if isinstance(n, ast.Compare):
        a = ev(n.left, env); b = ev(n.comparators[0], env)
        a = bv(a) if isinstance(a, bytes) else a; b = bv(b) if isinstance(b, bytes) else b
        if isinstance(n.ops[0], ast.Eq): return a == b
        if isinstance(n.ops[0], ast.In): return z3.Contains(b, a)
    if isinstance(n, ast.BoolOp) and isinstance(n.op, ast.And):
        vs = [ev(v, env) for v in n.values]
        vs = [z3.BoolVal(v) if isinstance(v, bool) else v for v in vs]
        return z3.And(*vs)
    raise NotImplementedError(ast.dump(n)[:120])
env = {"peek_data": data}
# walk: skip the hasattr wrapper and the peek assignment, take the if/elif/return chain
chain = [st for st in f.body if isinstance(st, ast.If) and "peek_data" in ast.unparse(st.test)][0]
paths = []
def walk(st, pc):
    c = ev(st.test, env)
    ret = st.body[0]; assert isinstance(ret, ast.Return)
    paths.append((pc + [c], ev(ret.value.elts[1], env)))
    if st.orelse and isinstance(st.orelse[0], ast.If): walk(st.orelse[0], pc + [z3.Not(c)])
    else: paths.append((pc + [z3.Not(c)], None if not st.orelse else ev(st.orelse[0].value.elts[1], env)))
walk(chain, [])
# the trailing `return fp, None`
last = [st for st in f.body if isinstance(st, ast.Return)][-1]
paths[-1] = (paths[-1][0], ev(last.value.elts[1], env))
magic = bv(B.RECORDSTREAM_MAGIC)
spec = lambda: z3.If(z3.PrefixOf(bv(b"Obj"), data), z3.StringVal("avro"), z3.If(z3.Contains(z3.SubString(data, 0, 19), magic), z3.StringVal("stream"), z3.StringVal("none")))
t = time.time()
for pc, res in paths:
    s = z3.Solver(); s.add(z3.Length(data) <= 64); s.add(*pc)
    s.add(spec() != z3.StringVal(res if res else "none"))
    print(res, s.check())
print(round(time.time() - t, 2), "s")
