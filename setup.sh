#!/bin/sh
# Build the overlay venv used by every check (offline; idempotent).
# /venv holds the repository's own dependencies and is left untouched; the overlay adds
# crosshair-tool, z3-solver and cvc5 from the offline wheelhouse and sees /venv's packages through a .pth file.
set -e
cd "$(dirname "$0")"
V=/verif/.venv
if [ -x "$V/bin/python" ] && "$V/bin/python" -c "import crosshair, z3, msgpack" >/dev/null 2>&1; then
    exit 0
fi
LOCK=/verif/.venv.lock
exec 9>"$LOCK"
flock 9
if [ -x "$V/bin/python" ] && "$V/bin/python" -c "import crosshair, z3, msgpack" >/dev/null 2>&1; then
    exit 0
fi
rm -rf "$V"
/venv/bin/python -m venv "$V"
SP=$("$V/bin/python" -c "import sysconfig; print(sysconfig.get_paths()['purelib'])")
echo "import site; site.addsitedir('/venv/lib/python3.12/site-packages')" > "$SP/zz_repo_venv.pth"
PIP_NO_INDEX=1 "$V/bin/pip" install -q --no-index --find-links /opt/veriftools/wheels crosshair-tool cvc5 >/dev/null
"$V/bin/python" -c "import crosshair, z3; assert crosshair.__version__ == '0.0.110', crosshair.__version__"
