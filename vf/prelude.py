"""CrossHair 0.0.110 adjustments shared by every XH harness (part of the claim, see DESIGN.md 2.1).

1. formatting a symbolic non-string (error messages such as "...got: {}".format(value)) returns a
   placeholder instead of realising the value;
2. int(x) for a user object whose __int__ returns a symbolic int (stdlib ipaddress);
3. CrossHair's short-circuiting (replacing a call by an uninterpreted value) is disabled;
4. importlib.import_module realises its argument;
5. ordering a symbolic str against a non-str returns NotImplemented (real str semantics);
6. a TypeError "expected string or bytes-like object, got <non-proxy>" is the program's, not a proxy intolerance;
7. counters: symbolic paths (StateSpace instances), solver check() calls and their time.
"""
import importlib
import time

import crosshair.core_and_libs  # noqa: F401  (runs CrossHair's own registrations first, ours override them)
import crosshair.core as _core
import z3
from crosshair import statespace as _statespace
from crosshair.core import CrossHairValue
from crosshair.libimpl import builtinslib as _bl
from crosshair.tracers import NoTracing

EXPECTED_CROSSHAIR = "0.0.110"


def _is_sym(x):
    return isinstance(x, CrossHairValue)


_orig_format = _bl._format


def _format(obj, format_spec=""):
    with NoTracing():
        if _is_sym(obj) and not isinstance(obj, _bl.AnySymbolicStr):
            return "<sym>"
        # a concrete tuple / list holding a symbolic non-string (an identifier tuple formatted into an error message)
        if type(obj) in (tuple, list) and len(obj) <= 8 and isinstance(format_spec, str) and format_spec == "":
            if any(_is_sym(x) and not isinstance(x, _bl.AnySymbolicStr) for x in obj):
                return "<seq with sym>"
        # a plain user object without __format__ of its own: format() is str(); CrossHair would deep-copy and realise
        # everything reachable from it first (e.g. a reader object that holds the symbolic selector)
        t = type(obj)
        plain = (
            not _is_sym(obj)
            and isinstance(format_spec, str)
            and format_spec == ""
            and getattr(t, "__module__", "builtins") != "builtins"
            and t.__format__ is object.__format__
            and not isinstance(obj, (str, bytes, int, float, tuple, list, dict, set, frozenset, BaseException))
        )
    if plain:
        return str(obj)
    return _orig_format(obj, format_spec)


_core._PATCH_REGISTRATIONS[format] = _format
_bl._format = _format

_orig_int = _bl._int


def _int(val=0, base=_bl._MISSING):
    with NoTracing():
        t = type(val)
        user_int = (
            base is _bl._MISSING
            and not isinstance(val, (CrossHairValue, int, float, str, bytes, bytearray))
            and hasattr(t, "__int__")
            and getattr(t, "__module__", "builtins") != "builtins"
        )
        if not user_int and not isinstance(val, CrossHairValue) and not isinstance(base, CrossHairValue):
            # concrete fast path; calling the original patch here would be re-dispatched to this wrapper
            return int(val) if base is _bl._MISSING else int(val, base)
    if user_int:
        return _int(val.__int__())
    return _orig_int(val, base)


_core._PATCH_REGISTRATIONS[int] = _int

# never replace a call by an uninterpreted symbolic result
_core.ShortCircuitingContext.make_interceptor = lambda self, original: original

_orig_import_module = importlib.import_module


def _import_module(name, package=None):
    from crosshair import realize

    return _orig_import_module(realize(name), package)


_core._PATCH_REGISTRATIONS[importlib.import_module] = _import_module

# 6. ordering a symbolic str against a non-str returns NotImplemented (as str does), so that the reflected
#    method of the other operand is consulted; CrossHair raises TypeError directly
_orig_str_cmp = _bl.AnySymbolicStr._cmp_op


def _str_cmp_op(self, other, op):
    if not isinstance(other, str):
        return NotImplemented
    return _orig_str_cmp(self, other, op)


_bl.AnySymbolicStr._cmp_op = _str_cmp_op

# 7. "expected string or bytes-like object" is treated by CrossHair as its own proxy intolerance (path dropped,
#    verdict degraded to "Not confirmed"); keep that only when the offending object really is a CrossHair proxy,
#    otherwise it is the program's own TypeError and must be reported
_orig_spi = _core.suspected_proxy_intolerance_exception


def _spi(exc_value):
    if not _orig_spi(exc_value):
        return False
    text = str(exc_value)
    if "expected string or bytes-like object" in text and not ("Symbolic" in text or "Lazy" in text or "crosshair" in text):
        return False
    return True


_core.suspected_proxy_intolerance_exception = _spi

# ---------------------------------------------------------------- counters
STATS = {"paths": 0, "checks": 0, "solver_s": 0.0}

_orig_check = z3.Solver.check


def _check(self, *a, **k):
    t = time.perf_counter()
    try:
        return _orig_check(self, *a, **k)
    finally:
        STATS["checks"] += 1
        STATS["solver_s"] += time.perf_counter() - t


z3.Solver.check = _check

_orig_ss_init = _statespace.StateSpace.__init__


def _ss_init(self, *a, **k):
    STATS["paths"] += 1
    return _orig_ss_init(self, *a, **k)


_statespace.StateSpace.__init__ = _ss_init


def reset_stats():
    for k in STATS:
        STATS[k] = 0 if k != "solver_s" else 0.0


def snapshot():
    return dict(STATS)
