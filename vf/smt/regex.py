"""Translate a compiled Python regular expression (through sre_parse) into a z3 regular expression.

Supported: literals, classes with ranges and negation, categories \\d \\w \\s (ASCII and, for \\w/\\d without re.ASCII,
flagged as Untranslatable because Python's Unicode tables are not available to the solver), * + ? {m,n}, groups,
alternation, ^ at the start, $ at the end (Python semantics: end of string or just before a final newline), \\Z.
`match` semantics (anchored at the start, open at the end unless the pattern ends with $ / \\Z).
Validated on every use against `re` on solver-drawn members and non-members (see validate())."""
import re

import z3

try:
    import re._constants as C
    import re._parser as sre_parse
except ImportError:  # Python < 3.11
    import sre_constants as C
    import sre_parse


class Untranslatable(Exception):
    pass


def any_char():
    return z3.AllChar(z3.ReSort(z3.StringSort()))


def _category(av, flags):
    if av is C.CATEGORY_DIGIT:
        if not (flags & re.ASCII):
            raise Untranslatable("\\d without re.ASCII (Unicode digits)")
        return z3.Range("0", "9")
    if av is C.CATEGORY_WORD:
        if not (flags & re.ASCII):
            raise Untranslatable("\\w without re.ASCII (Unicode word characters)")
        return z3.Union(z3.Range("a", "z"), z3.Range("A", "Z"), z3.Range("0", "9"), z3.Re("_"))
    if av is C.CATEGORY_SPACE:
        if not (flags & re.ASCII):
            raise Untranslatable("\\s without re.ASCII")
        return z3.Union(*[z3.Re(c) for c in " \t\n\r\f\v"])
    raise Untranslatable(f"category {av}")


def _class(items, flags):
    neg = False
    parts = []
    for op, av in items:
        if op is C.NEGATE:
            neg = True
        elif op is C.LITERAL:
            parts.append(z3.Re(chr(av)))
        elif op is C.RANGE:
            parts.append(z3.Range(chr(av[0]), chr(av[1])))
        elif op is C.CATEGORY:
            parts.append(_category(av, flags))
        else:
            raise Untranslatable(f"class item {op}")
    r = parts[0] if len(parts) == 1 else z3.Union(*parts)
    return z3.Intersect(any_char(), z3.Complement(r)) if neg else r


def _seq(seq, flags, top):
    items = list(seq)
    res = []
    for i, (op, av) in enumerate(items):
        if op is C.AT:
            if av is C.AT_BEGINNING and i == 0 and top:
                continue
            if av is C.AT_BEGINNING_STRING and i == 0 and top:
                continue
            if av is C.AT_END and i == len(items) - 1 and top:
                if flags & re.MULTILINE:
                    raise Untranslatable("$ with re.MULTILINE")
                res.append(z3.Option(z3.Re("\n")))
                continue
            if av is C.AT_END_STRING and i == len(items) - 1 and top:
                continue
            raise Untranslatable(f"anchor {av} at position {i}")
        elif op is C.LITERAL:
            if flags & re.IGNORECASE:
                raise Untranslatable("re.IGNORECASE")
            res.append(z3.Re(chr(av)))
        elif op is C.NOT_LITERAL:
            res.append(z3.Intersect(any_char(), z3.Complement(z3.Re(chr(av)))))
        elif op is C.ANY:
            res.append(any_char() if flags & re.DOTALL else z3.Intersect(any_char(), z3.Complement(z3.Re("\n"))))
        elif op is C.IN:
            if flags & re.IGNORECASE:
                raise Untranslatable("re.IGNORECASE")
            res.append(_class(av, flags))
        elif op in (C.MAX_REPEAT, C.MIN_REPEAT):
            lo, hi, sub = av
            r = _seq(sub, flags, False)
            if lo == 0 and hi == C.MAXREPEAT:
                res.append(z3.Star(r))
            elif lo == 1 and hi == C.MAXREPEAT:
                res.append(z3.Plus(r))
            elif lo == 0 and hi == 1:
                res.append(z3.Option(r))
            elif hi == C.MAXREPEAT:
                res.append(z3.Concat(z3.Loop(r, lo, lo), z3.Star(r)))
            else:
                res.append(z3.Loop(r, lo, hi))
        elif op is C.SUBPATTERN:
            res.append(_seq(av[3], flags, False))
        elif op is C.BRANCH:
            res.append(z3.Union(*[_seq(b, flags, False) for b in av[1]]))
        else:
            raise Untranslatable(f"regex construct {op}")
    if not res:
        return z3.Re("")
    return res[0] if len(res) == 1 else z3.Concat(*res)


def to_z3(pattern, mode="match"):
    """pattern: compiled re.Pattern or str. mode 'match' (anchored at the start), 'fullmatch', 'search'."""
    if isinstance(pattern, str):
        pattern = re.compile(pattern)
    flags = pattern.flags
    parsed = sre_parse.parse(pattern.pattern, flags & ~re.UNICODE if isinstance(pattern.pattern, str) else flags)
    items = list(parsed)
    starts = bool(items) and items[0][0] is C.AT and items[0][1] in (C.AT_BEGINNING, C.AT_BEGINNING_STRING)
    ends = bool(items) and items[-1][0] is C.AT and items[-1][1] in (C.AT_END, C.AT_END_STRING)
    r = _seq(parsed, flags, True)
    if mode == "fullmatch":
        return r
    if not ends:
        r = z3.Concat(r, z3.Star(any_char()))
    if mode == "search" and not starts:
        r = z3.Concat(z3.Star(any_char()), r)
    return r


def validate(pattern, mode="match", samples=40, timeout_ms=20000):
    """Draw members and non-members from the solver and compare with `re`. Returns (ok, detail, n)."""
    if isinstance(pattern, str):
        pattern = re.compile(pattern)
    rx = to_z3(pattern, mode)
    fn = {"match": pattern.match, "fullmatch": pattern.fullmatch, "search": pattern.search}[mode]
    s = z3.String("s")
    checked = 0
    for member in (True, False):
        sol = z3.Solver()
        sol.set("timeout", timeout_ms)
        sol.add(z3.InRe(s, rx) if member else z3.Not(z3.InRe(s, rx)))
        sol.add(z3.Length(s) <= 12)
        for _ in range(samples // 2):
            if str(sol.check()) != "sat":
                break
            val = sol.model().eval(s, model_completion=True).as_string()
            try:
                val = val.encode("ascii", "backslashreplace").decode("unicode_escape") if "\\u{" not in val else _unescape(val)
            except Exception:  # noqa: BLE001
                val = _unescape(val)
            if bool(fn(val)) != member:
                return False, f"{val!r}: solver says {'member' if member else 'non-member'}, re disagrees", checked
            checked += 1
            sol.add(s != z3.StringVal(val))
    return True, f"{checked} solver-drawn strings agree with re", checked


def _unescape(val):
    return re.sub(r"\\u\{([0-9a-fA-F]+)\}", lambda m: chr(int(m.group(1), 16)), val)


def model_string(model, term):
    return _unescape(model.eval(term, model_completion=True).as_string())


def as_language(formula, var):
    """Fold a boolean combination of memberships / equalities of ONE string variable into a single z3 regex, so that the
    query becomes one membership test (z3 decides that by derivatives; the same formula spread over several InRe atoms and
    string predicates is frequently answered 'unknown')."""
    full = z3.Star(any_char())
    if z3.is_true(formula):
        return full
    if z3.is_false(formula):
        return z3.Complement(full)
    if z3.is_not(formula):
        return z3.Complement(as_language(formula.arg(0), var))
    if z3.is_and(formula):
        parts = [as_language(c, var) for c in formula.children()]
        return parts[0] if len(parts) == 1 else z3.Intersect(*parts)
    if z3.is_or(formula):
        parts = [as_language(c, var) for c in formula.children()]
        return parts[0] if len(parts) == 1 else z3.Union(*parts)
    if z3.is_app(formula) and formula.decl().kind() == z3.Z3_OP_SEQ_IN_RE and formula.arg(0).eq(var):
        return formula.arg(1)
    if z3.is_eq(formula):
        a, b = formula.arg(0), formula.arg(1)
        if a.eq(var) and z3.is_string_value(b):
            return z3.Re(b)
        if b.eq(var) and z3.is_string_value(a):
            return z3.Re(a)
    if z3.is_app(formula) and formula.decl().kind() == z3.Z3_OP_SEQ_PREFIX and formula.arg(1).eq(var) and z3.is_string_value(formula.arg(0)):
        return z3.Concat(z3.Re(formula.arg(0)), full)
    if z3.is_app(formula) and formula.decl().kind() == z3.Z3_OP_SEQ_SUFFIX and formula.arg(1).eq(var) and z3.is_string_value(formula.arg(0)):
        return z3.Concat(full, z3.Re(formula.arg(0)))
    raise Untranslatable(f"cannot fold {formula.decl().name()} into a language of {var}")
