"""Kernel symbolic evaluator: turns the *current AST* of a small repo function (or of one branch of it) plus the live
values of the module constants it mentions into z3 terms, forking on branches.

Supported: assignment (tuple targets), if/elif/else, return, raise, expression statements; integers as signed bit-vectors
of a fixed width, booleans, strings (z3 String), byte strings of concrete length (lists of 8-bit vectors), tuples and
Python constants. Anything else raises Untranslatable; the caller reports the obligation as inconclusive (a refactoring
must never become an alarm).
"""
import ast
import importlib
import inspect
import textwrap
import time

import z3


class Untranslatable(Exception):
    pass


class SymBytes:
    """byte string of concrete length; elements are z3 8-bit vectors"""

    def __init__(self, bs):
        self.bs = list(bs)

    def __len__(self):
        return len(self.bs)


class SymInt:
    """signed integer modelled as a bit-vector of width W (no overflow: side conditions are added by the kernels)"""

    def __init__(self, term, width):
        self.t = term
        self.w = width


class Encoded:
    """result of <symbolic string>.encode(): the text itself, tagged"""

    def __init__(self, term):
        self.term = term


class FakeHash:
    """uninterpreted hash object: remembers its input, digest() is 32 fresh bytes"""

    counter = 0

    def __init__(self, arg):
        self.arg = arg
        FakeHash.counter += 1
        self.bytes = SymBytes([z3.BitVec(f"digest{FakeHash.counter}_{i}", 8) for i in range(32)])

    def digest(self):
        return self.bytes


class Outcome:
    def __init__(self, kind, value, pc, env):
        self.kind = kind  # 'return' | 'raise' | 'fall'
        self.value = value
        self.pc = pc
        self.env = env


def get_function_ast(qualname):
    """'module:Class.func' -> (ast.FunctionDef, module object, source sha material)"""
    modname, _, path = qualname.partition(":")
    mod = importlib.import_module(modname)
    obj = mod
    for part in path.split("."):
        obj = inspect.getattr_static(obj, part) if not inspect.ismodule(obj) else getattr(obj, part)
    while isinstance(obj, (staticmethod, classmethod)):
        obj = obj.__func__
    obj = inspect.unwrap(obj)
    src = textwrap.dedent(inspect.getsource(obj))
    tree = ast.parse(src)
    fn = tree.body[0]
    if not isinstance(fn, (ast.FunctionDef,)):
        raise Untranslatable(f"{qualname} is not a plain function")
    return fn, mod, src


def find_if(func, pred):
    """First `if`/`elif` node (in source order) whose test satisfies pred."""
    for node in ast.walk(func):
        if isinstance(node, ast.If) and pred(node.test):
            return node
    raise Untranslatable("branch not found")


class Evaluator:
    def __init__(self, module, width=160, max_bits=136, min_bits=0):
        self.module = module
        self.W = width
        self.max_bits = max_bits
        self.min_bits = min_bits  # bit_length() forks over [min_bits, max_bits]: lets a driver split the range
        self.queries = 0
        self.solver_s = 0.0
        self.hashes = []  # FakeHash objects created while evaluating

    # ------------------------------------------------------------------ helpers
    def bv(self, x):
        if isinstance(x, SymInt):
            return x.t
        if isinstance(x, bool):
            raise Untranslatable("bool used as int")
        if isinstance(x, int):
            return z3.BitVecVal(x, self.W)
        raise Untranslatable(f"not an integer: {type(x).__name__}")

    def is_sym(self, x):
        return isinstance(x, (SymInt, SymBytes)) or z3.is_expr(x)

    def lookup(self, name, env):
        if name in env:
            return env[name]
        if hasattr(self.module, name):
            return getattr(self.module, name)
        import builtins

        if hasattr(builtins, name):
            return getattr(builtins, name)
        raise Untranslatable(f"unknown name {name}")

    def truth(self, v):
        """-> z3 Bool or Python bool"""
        if isinstance(v, bool):
            return v
        if z3.is_bool(v):
            return v
        if isinstance(v, SymInt):
            return v.t != z3.BitVecVal(0, self.W)
        if isinstance(v, SymBytes):
            return len(v) > 0
        if z3.is_string(v):
            return z3.Length(v) > 0
        if v is None or isinstance(v, (int, str, bytes, tuple, list, dict)):
            return bool(v)
        raise Untranslatable(f"truth of {type(v).__name__}")

    # ------------------------------------------------------------------ expressions: generator of (value, constraints)
    def ev(self, node, env):
        """yields (value, [constraints]) alternatives"""
        if isinstance(node, ast.Constant):
            yield node.value, []
            return
        if isinstance(node, ast.Name):
            yield self.lookup(node.id, env), []
            return
        if isinstance(node, ast.Tuple):
            for vals, cs in self.ev_many(node.elts, env):
                yield tuple(vals), cs
            return
        if isinstance(node, ast.List):
            for vals, cs in self.ev_many(node.elts, env):
                yield list(vals), cs
            return
        if isinstance(node, ast.Attribute):
            for base, cs in self.ev(node.value, env):
                if self.is_sym(base):
                    raise Untranslatable(f"attribute {node.attr} of symbolic value")
                yield getattr(base, node.attr), cs
            return
        if isinstance(node, ast.JoinedStr):
            parts = []
            for v in node.values:
                if isinstance(v, ast.Constant):
                    parts.append(ast.Constant(value=v.value))
                elif isinstance(v, ast.FormattedValue) and v.conversion == -1 and v.format_spec is None:
                    parts.append(v.value)
                else:
                    raise Untranslatable("format spec in f-string")
            for vals, cs in self.ev_many(parts, env):
                yield self.concat(vals), cs
            return
        if isinstance(node, ast.UnaryOp):
            for v, cs in self.ev(node.operand, env):
                if isinstance(node.op, ast.Not):
                    t = self.truth(v)
                    yield (not t) if isinstance(t, bool) else z3.Not(t), cs
                elif isinstance(node.op, ast.USub):
                    if isinstance(v, SymInt):
                        yield SymInt(-v.t, self.W), cs
                    elif isinstance(v, int):
                        yield -v, cs
                    else:
                        raise Untranslatable("unary minus")
                else:
                    raise Untranslatable(ast.dump(node.op))
            return
        if isinstance(node, ast.BoolOp):
            for vals, cs in self.ev_many(node.values, env):
                ts = [self.truth(v) for v in vals]
                if all(isinstance(t, bool) for t in ts):
                    yield (all(ts) if isinstance(node.op, ast.And) else any(ts)), cs
                else:
                    ts = [z3.BoolVal(t) if isinstance(t, bool) else t for t in ts]
                    yield (z3.And(*ts) if isinstance(node.op, ast.And) else z3.Or(*ts)), cs
            return
        if isinstance(node, ast.Compare):
            if len(node.ops) != 1:
                raise Untranslatable("chained comparison")
            for (a, b), cs in self.ev_many([node.left, node.comparators[0]], env):
                yield self.compare(node.ops[0], a, b), cs
            return
        if isinstance(node, ast.BinOp):
            for (a, b), cs in self.ev_many([node.left, node.right], env):
                yield self.binop(node.op, a, b), cs
            return
        if isinstance(node, ast.IfExp):
            for c, cs in self.ev(node.test, env):
                t = self.truth(c)
                if isinstance(t, bool):
                    for v, cs2 in self.ev(node.body if t else node.orelse, env):
                        yield v, cs + cs2
                else:
                    for v, cs2 in self.ev(node.body, env):
                        yield v, cs + cs2 + [t]
                    for v, cs2 in self.ev(node.orelse, env):
                        yield v, cs + cs2 + [z3.Not(t)]
            return
        if isinstance(node, ast.Subscript):
            yield from self.subscript(node, env)
            return
        if isinstance(node, ast.Call):
            yield from self.call(node, env)
            return
        raise Untranslatable(f"expression {type(node).__name__}")

    def ev_many(self, nodes, env):
        if not nodes:
            yield [], []
            return
        for v, cs in self.ev(nodes[0], env):
            for rest, cs2 in self.ev_many(nodes[1:], env):
                yield [v] + rest, cs + cs2

    def concat(self, vals):
        if all(isinstance(v, str) for v in vals):
            return "".join(vals)
        terms = []
        for v in vals:
            if isinstance(v, str):
                terms.append(z3.StringVal(v))
            elif z3.is_string(v):
                terms.append(v)
            else:
                raise Untranslatable(f"concatenation of {type(v).__name__}")
        if not terms:
            return ""
        return z3.Concat(*terms) if len(terms) > 1 else terms[0]

    def compare(self, op, a, b):
        if isinstance(op, (ast.In, ast.NotIn)):
            neg = isinstance(op, ast.NotIn)
            if isinstance(b, (list, tuple, dict, set, frozenset)) and not self.is_sym(a):
                r = a in b
                return (not r) if neg else r
            if isinstance(b, (list, tuple, dict, set, frozenset)) and z3.is_string(a):
                items = [x for x in b if isinstance(x, str)]
                r = z3.InRe(a, z3.Union(*[z3.Re(x) for x in items]) if len(items) > 1 else z3.Re(items[0])) if items else z3.BoolVal(False)
                return z3.Not(r) if neg else r
            if z3.is_string(a) or z3.is_string(b):
                a = self.bytes_to_string(a)
                b = self.bytes_to_string(b)
            if (z3.is_string(b) or isinstance(b, str)) and (z3.is_string(a) or isinstance(a, str)):
                bb = z3.StringVal(b) if isinstance(b, str) else b
                aa = z3.StringVal(a) if isinstance(a, str) else a
                r = z3.Contains(bb, aa)
                return z3.Not(r) if neg else r
            raise Untranslatable("membership")
        sym = self.is_sym(a) or self.is_sym(b)
        if not sym:
            import operator

            f = {ast.Eq: operator.eq, ast.NotEq: operator.ne, ast.Lt: operator.lt, ast.LtE: operator.le, ast.Gt: operator.gt, ast.GtE: operator.ge, ast.Is: operator.is_, ast.IsNot: operator.is_not}[type(op)]
            return f(a, b)
        if z3.is_string(a) or z3.is_string(b):
            # byte strings may be modelled as z3 strings over code points 0..255 (container detection)
            a = self.bytes_to_string(a)
            b = self.bytes_to_string(b)
            aa = z3.StringVal(a) if isinstance(a, str) else a
            bb = z3.StringVal(b) if isinstance(b, str) else b
            if not (z3.is_string(aa) and z3.is_string(bb)):
                return isinstance(op, ast.NotEq) if isinstance(op, (ast.Eq, ast.NotEq)) else self._bad("string compared with non-string")
            if isinstance(op, ast.Eq):
                return aa == bb
            if isinstance(op, ast.NotEq):
                return aa != bb
            raise Untranslatable("string ordering")
        if isinstance(a, SymBytes) or isinstance(b, SymBytes):
            if isinstance(a, bytes):
                a = SymBytes([z3.BitVecVal(x, 8) for x in a])
            if isinstance(b, bytes):
                b = SymBytes([z3.BitVecVal(x, 8) for x in b])
            if not (isinstance(a, SymBytes) and isinstance(b, SymBytes)):
                raise Untranslatable("bytes compared with non-bytes")
            if len(a) != len(b):
                r = z3.BoolVal(False)
            else:
                r = z3.And(*[x == y for x, y in zip(a.bs, b.bs)]) if len(a) else z3.BoolVal(True)
            if isinstance(op, ast.Eq):
                return r
            if isinstance(op, ast.NotEq):
                return z3.Not(r)
            raise Untranslatable("bytes ordering")
        if z3.is_bool(a) or z3.is_bool(b):
            aa = z3.BoolVal(a) if isinstance(a, bool) else a
            bb = z3.BoolVal(b) if isinstance(b, bool) else b
            if isinstance(op, ast.Eq):
                return aa == bb
            if isinstance(op, ast.NotEq):
                return aa != bb
            raise Untranslatable("bool ordering")
        x, y = self.bv(a), self.bv(b)
        return {ast.Eq: lambda: x == y, ast.NotEq: lambda: x != y, ast.Lt: lambda: x < y, ast.LtE: lambda: x <= y, ast.Gt: lambda: x > y, ast.GtE: lambda: x >= y}[type(op)]()

    @staticmethod
    def bytes_to_string(x):
        if isinstance(x, (bytes, bytearray)):
            return z3.StringVal("".join(chr(c) for c in x))
        return x

    def _bad(self, msg):
        raise Untranslatable(msg)

    def binop(self, op, a, b):
        if not (self.is_sym(a) or self.is_sym(b)):
            import operator

            f = {ast.Add: operator.add, ast.Sub: operator.sub, ast.Mult: operator.mul, ast.FloorDiv: operator.floordiv, ast.Mod: operator.mod, ast.LShift: operator.lshift, ast.RShift: operator.rshift, ast.BitAnd: operator.and_, ast.BitOr: operator.or_}.get(type(op))
            if f is None:
                raise Untranslatable("operator")
            return f(a, b)
        if isinstance(op, ast.Add) and (z3.is_string(a) or z3.is_string(b) or isinstance(a, str) or isinstance(b, str)):
            return self.concat([a, b])
        if isinstance(op, ast.Add) and (isinstance(a, SymBytes) or isinstance(b, SymBytes)):
            aa = a.bs if isinstance(a, SymBytes) else [z3.BitVecVal(x, 8) for x in a]
            bb = b.bs if isinstance(b, SymBytes) else [z3.BitVecVal(x, 8) for x in b]
            return SymBytes(aa + bb)
        x, y = self.bv(a), self.bv(b)
        if isinstance(op, ast.Add):
            return SymInt(x + y, self.W)
        if isinstance(op, ast.Sub):
            return SymInt(x - y, self.W)
        if isinstance(op, ast.Mult):
            return SymInt(x * y, self.W)
        if isinstance(op, ast.BitAnd):
            return SymInt(x & y, self.W)
        if isinstance(op, ast.BitOr):
            return SymInt(x | y, self.W)
        if isinstance(op, ast.LShift) and isinstance(b, int):
            return SymInt(x << b, self.W)
        if isinstance(op, ast.RShift) and isinstance(b, int):
            return SymInt(x >> b, self.W)
        raise Untranslatable("arithmetic operator on symbolic operands")

    def subscript(self, node, env):
        for base, cs in self.ev(node.value, env):
            sl = node.slice
            if isinstance(sl, ast.Slice):
                def conc(n):
                    if n is None:
                        return None
                    vals = list(self.ev(n, env))
                    if len(vals) != 1 or not isinstance(vals[0][0], int):
                        raise Untranslatable("symbolic slice bound")
                    return vals[0][0]

                lo, hi, st = conc(sl.lower), conc(sl.upper), conc(sl.step)
                if isinstance(base, SymBytes):
                    yield SymBytes(base.bs[slice(lo, hi, st)]), cs
                elif z3.is_string(base):
                    if st is not None:
                        raise Untranslatable("string slice step")
                    n = z3.Length(base)
                    lo_t = z3.IntVal(0) if lo is None else (z3.IntVal(lo) if lo >= 0 else z3.If(n + lo < 0, z3.IntVal(0), n + lo))
                    hi_t = n if hi is None else (z3.If(z3.IntVal(hi) > n, n, z3.IntVal(hi)) if hi >= 0 else z3.If(n + hi < 0, z3.IntVal(0), n + hi))
                    ln = z3.If(hi_t - lo_t < 0, z3.IntVal(0), hi_t - lo_t)
                    yield z3.SubString(base, lo_t, ln), cs
                else:
                    yield base[slice(lo, hi, st)], cs
            else:
                for idx, cs2 in self.ev(sl, env):
                    if isinstance(idx, int) and isinstance(base, SymBytes):
                        yield SymInt(z3.ZeroExt(self.W - 8, base.bs[idx]), self.W), cs + cs2
                    elif isinstance(idx, (int, str)) and not self.is_sym(base):
                        yield base[idx], cs + cs2
                    else:
                        raise Untranslatable("subscript")

    # ------------------------------------------------------------------ calls
    def call(self, node, env):
        f = node.func
        kw = {}
        for k in node.keywords:
            vals = list(self.ev(k.value, env))
            if len(vals) != 1:
                raise Untranslatable("forking keyword argument")
            kw[k.arg] = vals[0][0]
        # ---- methods
        if isinstance(f, ast.Attribute) and f.attr == "join" and len(node.args) == 1 and isinstance(node.args[0], (ast.GeneratorExp, ast.ListComp)):
            yield from self.join_comprehension(f.value, node.args[0], env)
            return
        if isinstance(f, ast.Attribute) and isinstance(f.value, ast.Name) and f.value.id == "hashlib" and f.value.id not in env:
            for args, cs in self.ev_many(node.args, env):
                h = FakeHash(args[0] if args else None)
                h.algorithm = f.attr
                self.hashes.append(h)
                yield h, cs
            return
        if isinstance(f, ast.Attribute):
            if isinstance(f.value, ast.Name) and f.value.id == "int" and f.attr == "from_bytes":
                for args, cs in self.ev_many(node.args, env):
                    data = args[0]
                    order = args[1] if len(args) > 1 else kw.get("byteorder", "big")
                    if isinstance(data, bytes):
                        data = SymBytes([z3.BitVecVal(x, 8) for x in data])
                    if not isinstance(data, SymBytes):
                        raise Untranslatable("from_bytes of non-bytes")
                    if kw.get("signed"):
                        raise Untranslatable("signed from_bytes")
                    bs = data.bs if order == "big" else data.bs[::-1]
                    if 8 * len(bs) >= self.W:
                        raise Untranslatable("byte string wider than the integer model")
                    acc = z3.BitVecVal(0, self.W)
                    for b in bs:
                        acc = (acc << 8) | z3.ZeroExt(self.W - 8, b)
                    yield SymInt(acc, self.W), cs
                return
            if isinstance(f.value, ast.Name) and f.value.id == "struct" and f.attr in ("pack", "unpack"):
                for args, cs in self.ev_many(node.args, env):
                    yield self.struct_call(f.attr, args), cs
                return
            for recv, cs in self.ev(f.value, env):
                for args, cs2 in self.ev_many(node.args, env):
                    yield from self.method(recv, f.attr, args, kw, cs + cs2)
            return
        # ---- plain names
        if isinstance(f, ast.Name):
            name = f.id
            if name == "abs":
                for (x,), cs in self.ev_many(node.args, env):
                    if isinstance(x, SymInt):
                        yield SymInt(z3.If(x.t < 0, -x.t, x.t), self.W), cs
                    else:
                        yield abs(x), cs
                return
            if name == "len":
                for (x,), cs in self.ev_many(node.args, env):
                    if isinstance(x, SymBytes):
                        yield len(x), cs
                    elif z3.is_string(x):
                        raise Untranslatable("len of symbolic string")
                    else:
                        yield len(x), cs
                return
            if name == "isinstance":
                raise Untranslatable("isinstance on a symbolic path")
            if name == "hasattr":
                for args, cs in self.ev_many(node.args, env):
                    if self.is_sym(args[0]):
                        raise Untranslatable("hasattr of symbolic value")
                    yield hasattr(args[0], args[1]), cs
                return
            if name in ("int", "bool", "str"):
                for args, cs in self.ev_many(node.args, env):
                    if any(self.is_sym(a) for a in args):
                        raise Untranslatable(f"{name}() of symbolic value")
                    yield {"int": int, "bool": bool, "str": str}[name](*args), cs
                return
            target = self.lookup(name, env)
            for args, cs in self.ev_many(node.args, env):
                if any(self.is_sym(a) for a in args) or any(self.is_sym(a) for a in kw.values()):
                    if getattr(target, "_kse_opaque", False):
                        # a stand-in supplied by the harness for an environment call (open, a codec constructor): it accepts terms
                        yield target(*args, **kw), cs
                        continue
                    yield from self.inline(name, target, args, kw, cs)
                    continue
                yield target(*args, **kw), cs
            return
        raise Untranslatable("call target")

    def inline(self, name, target, args, kw, cs, max_depth=3):
        """A call of a plain Python function of the repository with a symbolic argument: evaluate the callee's current AST in place
        (a helper extracted by a refactoring must not turn the obligation inconclusive)."""
        import types

        depth = getattr(self, "depth", 0)
        if not isinstance(target, types.FunctionType) or not (getattr(target, "__module__", "") or "").startswith("flow.record") or depth >= max_depth:
            raise Untranslatable(f"call of {name} with symbolic argument")
        try:
            src = textwrap.dedent(inspect.getsource(target))
            fn = ast.parse(src).body[0]
            bound = inspect.signature(target).bind(*args, **kw)
            bound.apply_defaults()
        except (OSError, TypeError, SyntaxError, IndexError) as e:
            raise Untranslatable(f"call of {name} with symbolic argument ({type(e).__name__})")
        if not isinstance(fn, ast.FunctionDef) or fn.decorator_list:
            raise Untranslatable(f"call of {name}: not a plain function")
        sub = Evaluator(importlib.import_module(target.__module__), width=self.W, max_bits=self.max_bits, min_bits=self.min_bits)
        sub.depth = depth + 1
        sub.hashes = self.hashes
        self.inlined = getattr(self, "inlined", []) + [f"{target.__module__}:{target.__qualname__}"]
        for o in sub.run(list(fn.body), dict(bound.arguments), []):
            if o.kind == "raise":
                raise Untranslatable(f"inlined {name} may raise")
            yield (o.value if o.kind == "return" else None), cs + o.pc

    def join_comprehension(self, sep_node, comp, env):
        if len(comp.generators) != 1 or comp.generators[0].ifs:
            raise Untranslatable("join over a filtered / nested comprehension")
        gen = comp.generators[0]
        for sep, cs in self.ev(sep_node, env):
            if not isinstance(sep, str):
                raise Untranslatable("symbolic separator")
            for items, cs2 in self.ev(gen.iter, env):
                if not isinstance(items, (list, tuple)):
                    raise Untranslatable("join over a non-concrete sequence")
                parts = []
                ccs = cs + cs2
                for i, item in enumerate(items):
                    e2 = dict(env)
                    self.assign(gen.target, item, e2)
                    vals = list(self.ev(comp.elt, e2))
                    if len(vals) != 1:
                        raise Untranslatable("forking comprehension element")
                    if i and sep:
                        parts.append(sep)
                    parts.append(vals[0][0])
                    ccs = ccs + vals[0][1]
                yield self.concat(parts), ccs

    def method(self, recv, attr, args, kw, cs):
        import re as _re

        if isinstance(recv, _re.Pattern) and attr in ("match", "fullmatch", "search") and len(args) == 1 and (z3.is_string(args[0]) or isinstance(args[0], str)):
            from vf.smt import regex as _regex

            try:
                rx = _regex.to_z3(recv, attr)
            except _regex.Untranslatable as e:
                raise Untranslatable(f"regex: {e}")
            self.patterns = getattr(self, "patterns", []) + [(recv, attr)]
            arg = z3.StringVal(args[0]) if isinstance(args[0], str) else args[0]
            yield z3.InRe(arg, rx), cs
            return
        if isinstance(recv, FakeHash) and attr == "digest":
            yield recv.digest(), cs
            return
        if (z3.is_string(recv) or isinstance(recv, str)) and attr == "encode" and not args:
            yield Encoded(z3.StringVal(recv) if isinstance(recv, str) else recv), cs
            return
        if isinstance(recv, SymInt) and attr == "bit_length":
            # fork on the exact bit length b: 2^(b-1) <= |x| < 2^b
            mag = z3.If(recv.t < 0, -recv.t, recv.t)
            if self.min_bits == 0:
                yield 0, cs + [mag == z3.BitVecVal(0, self.W)]
            for b in range(max(1, self.min_bits), self.max_bits + 1):
                lo = z3.BitVecVal(1 << (b - 1), self.W)
                hi = z3.BitVecVal(1 << b, self.W)
                yield b, cs + [z3.UGE(mag, lo), z3.ULT(mag, hi)]
            return
        if isinstance(recv, SymInt) and attr == "to_bytes":
            n = args[0] if args else kw.get("length", 1)
            order = args[1] if len(args) > 1 else kw.get("byteorder", "big")
            if not isinstance(n, int):
                raise Untranslatable("symbolic to_bytes length")
            if kw.get("signed"):
                raise Untranslatable("signed to_bytes")
            if 8 * n >= self.W:
                raise Untranslatable("to_bytes wider than the integer model")
            # Python raises OverflowError when the value does not fit / is negative: those paths are recorded as constraints
            fits = z3.And(recv.t >= 0, z3.ULT(recv.t, z3.BitVecVal(1 << (8 * n), self.W)))
            bs = [z3.Extract(7, 0, z3.LShR(recv.t, 8 * (n - 1 - i))) for i in range(n)]
            yield SymBytes(bs if order == "big" else bs[::-1]), cs + [fits]
            return
        if (z3.is_string(recv) or isinstance(recv, str)) and attr in ("endswith", "startswith"):
            r = z3.StringVal(recv) if isinstance(recv, str) else recv
            arg = args[0]
            alts = arg if isinstance(arg, tuple) else (arg,)
            terms = []
            anyc = z3.Star(z3.AllChar(z3.ReSort(z3.StringSort())))
            for a in alts:
                if isinstance(a, (bytes, bytearray)):
                    a = "".join(chr(c) for c in a)  # byte strings are modelled as strings over code points 0..255
                if isinstance(a, str) and z3.is_string(r) and not z3.is_string_value(r):
                    # constant affix of a symbolic string: stay inside the regex theory (mixing PrefixOf with InRe stalls z3)
                    rx = z3.Concat(anyc, z3.Re(a)) if attr == "endswith" else z3.Concat(z3.Re(a), anyc)
                    terms.append(z3.InRe(r, rx) if a else z3.BoolVal(True))
                    continue
                a = z3.StringVal(a) if isinstance(a, str) else a
                terms.append(z3.SuffixOf(a, r) if attr == "endswith" else z3.PrefixOf(a, r))
            yield (z3.Or(*terms) if len(terms) > 1 else terms[0]), cs
            return
        if isinstance(recv, str) and attr == "join":
            # "".join(<generator over a concrete-length list>) is handled by the caller through join_items
            raise Untranslatable("join")
        if isinstance(recv, str) and attr == "format":
            if any(self.is_sym(a) for a in args):
                # used in error messages only: the value is irrelevant
                yield "<formatted>", cs
            else:
                yield recv.format(*args, **kw), cs
            return
        if z3.is_string(recv) and attr == "rpartition":
            raise Untranslatable("rpartition of symbolic string")
        if not self.is_sym(recv) and not any(self.is_sym(a) for a in args):
            yield getattr(recv, attr)(*args, **kw), cs
            return
        if not self.is_sym(recv) and getattr(recv, "_kse_opaque", False):
            yield getattr(recv, attr)(*args, **kw), cs
            return
        raise Untranslatable(f"method {attr} on symbolic value")

    def struct_call(self, which, args):
        fmt = args[0]
        if not isinstance(fmt, str):
            raise Untranslatable("symbolic struct format")
        order = "big"
        body = fmt
        if fmt[:1] in "<>!=@":
            order = "little" if fmt[0] == "<" else "big"
            if fmt[0] in "=@":
                raise Untranslatable("native struct byte order")
            body = fmt[1:]
        sizes = {"B": 1, "H": 2, "I": 4, "L": 4, "Q": 8}
        if len(body) != 1 or body not in sizes:
            raise Untranslatable(f"struct format {fmt!r}")
        n = sizes[body]
        if which == "pack":
            x = self.bv(args[1])
            bs = [z3.Extract(7, 0, z3.LShR(x, 8 * (n - 1 - i))) for i in range(n)]
            return SymBytes(bs if order == "big" else bs[::-1])
        data = args[1]
        if isinstance(data, bytes):
            data = SymBytes([z3.BitVecVal(b, 8) for b in data])
        if not isinstance(data, SymBytes) or len(data) != n:
            raise Untranslatable("struct.unpack of wrong size")
        bs = data.bs if order == "big" else data.bs[::-1]
        acc = z3.BitVecVal(0, self.W)
        for b in bs:
            acc = (acc << 8) | z3.ZeroExt(self.W - 8, b)
        return (SymInt(acc, self.W),)

    # ------------------------------------------------------------------ statements
    def assign(self, target, value, env):
        if isinstance(target, ast.Name):
            env[target.id] = value
        elif isinstance(target, (ast.Tuple, ast.List)):
            if not isinstance(value, (tuple, list)) or len(value) != len(target.elts):
                raise Untranslatable("tuple assignment shape")
            for t, v in zip(target.elts, value):
                self.assign(t, v, env)
        else:
            raise Untranslatable("assignment target")

    def run(self, stmts, env, pc=None):
        """yields Outcome for every path through the statement list"""
        pc = list(pc or [])
        if not stmts:
            yield Outcome("fall", None, pc, env)
            return
        st, rest = stmts[0], stmts[1:]
        if isinstance(st, ast.Assign):
            if len(st.targets) != 1:
                raise Untranslatable("multiple assignment targets")
            for v, cs in self.ev(st.value, env):
                e2 = dict(env)
                self.assign(st.targets[0], v, e2)
                yield from self.run(rest, e2, pc + cs)
            return
        if isinstance(st, ast.Expr):
            if isinstance(st.value, ast.Constant):
                yield from self.run(rest, env, pc)
                return
            for _, cs in self.ev(st.value, env):
                yield from self.run(rest, env, pc + cs)
            return
        if isinstance(st, ast.Return):
            if st.value is None:
                yield Outcome("return", None, pc, env)
                return
            for v, cs in self.ev(st.value, env):
                yield Outcome("return", v, pc + cs, env)
            return
        if isinstance(st, ast.Raise):
            name = "Exception"
            if st.exc is not None:
                e = st.exc.func if isinstance(st.exc, ast.Call) else st.exc
                name = ast.unparse(e)
            yield Outcome("raise", name, pc, env)
            return
        if isinstance(st, ast.If):
            for c, cs in self.ev(st.test, env):
                t = self.truth(c)
                if isinstance(t, bool):
                    branch = st.body if t else st.orelse
                    for o in self.run(list(branch), dict(env), pc + cs):
                        if o.kind == "fall":
                            yield from self.run(rest, o.env, o.pc)
                        else:
                            yield o
                else:
                    for cond, branch in ((t, st.body), (z3.Not(t), st.orelse)):
                        for o in self.run(list(branch), dict(env), pc + cs + [cond]):
                            if o.kind == "fall":
                                yield from self.run(rest, o.env, o.pc)
                            else:
                                yield o
            return
        if isinstance(st, ast.Pass):
            yield from self.run(rest, env, pc)
            return
        raise Untranslatable(f"statement {type(st).__name__}")

    # ------------------------------------------------------------------ solving
    def check(self, constraints, timeout_ms=60000):
        s = z3.Solver()
        s.set("timeout", timeout_ms)
        for c in constraints:
            s.add(c if not isinstance(c, bool) else z3.BoolVal(c))
        t = time.perf_counter()
        r = s.check()
        self.solver_s += time.perf_counter() - t
        self.queries += 1
        return str(r), (s.model() if str(r) == "sat" else None), s


def cross_check_cvc5(solver, expected, timeout_ms=10000):
    """Feed the same query to cvc5 through its Python API; returns 'agree', 'disagree:<r>' or 'unavailable:<why>'."""
    try:
        import cvc5

        tm = cvc5.TermManager() if hasattr(cvc5, "TermManager") else None
        slv = cvc5.Solver(tm) if tm is not None else cvc5.Solver()
        slv.setOption("tlimit-per", str(timeout_ms))
        slv.setOption("strings-exp", "true")
        slv.setLogic("ALL")
        parser = cvc5.InputParser(slv)
        text = solver.to_smt2()
        parser.setStringInput(cvc5.InputLanguage.SMT_LIB_2_6, text, "q")
        sm = parser.getSymbolManager()
        result = None
        while True:
            cmd = parser.nextCommand()
            if cmd.isNull():
                break
            out = cmd.invoke(slv, sm)
            if out.strip() in ("sat", "unsat", "unknown"):
                result = out.strip()
        if result is None:
            return "unavailable:no result"
        if result == "unknown":
            return "unknown"
        return "agree" if result == expected else f"disagree:{result}"
    except Exception as e:  # noqa: BLE001
        return f"unavailable:{type(e).__name__}: {e}"[:200]
