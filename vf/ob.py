"""Obligation descriptions shared by the driver and the harness modules."""
from dataclasses import asdict, dataclass, field
from typing import Any, Dict, Optional


class HarnessInconclusive(Exception):
    """Raised by a harness when the code under test has left the stand-ins' vocabulary (e.g. an SQL statement the connection model does
    not know): the obligation is reported as inconclusive - never as discharged and never as a violation."""


@dataclass
class Ob:
    """One proof obligation.

    kind:
      xh   - `factory(**args)` returns a function with typed parameters and a PEP-316 ``post: _``;
             CrossHair decides it over all values of its parameters.
      smt  - `factory(**args)` runs its own z3 (and cvc5) queries, generated from the repo's
             source, and returns a dict (see vf.smt.result()).
      side - concrete side condition (`factory(**args)` returns {"ok": bool, "detail": str});
             reported, never counted as a solver obligation.
    """

    id: str
    kind: str
    module: str
    factory: str
    args: Dict[str, Any] = field(default_factory=dict)
    timeout: float = 20.0
    group: str = ""
    bounds: str = ""
    # hunt-only obligations may realise values: CONFIRMED is not claimed, only counterexamples count
    hunt_only: bool = False
    # an obligation that is expected to be refuted by the solver (sat / POST_FAIL) with a witness that is then
    # handed to `on_witness` of the harness module (e.g. collision witnesses feeding other obligations)
    expect: str = "hold"

    def to_json(self):
        return asdict(self)


def result(ob: Ob, verdict: str, **kw) -> Dict[str, Any]:
    r = {
        "id": ob.id,
        "kind": ob.kind,
        "group": ob.group,
        "verdict": verdict,  # discharged | candidate | inconclusive | vacuous | error | side-ok | side-fail
        "paths": 0,
        "solver_calls": 0,
        "solver_s": 0.0,
        "wall_s": 0.0,
        "detail": "",
        "cex": None,
        "args": ob.args,
        "bounds": ob.bounds,
        "hunt_only": ob.hunt_only,
    }
    r.update(kw)
    return r
