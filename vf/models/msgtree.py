"""Tree-level model of msgpack ("identity transport"): packb/unpackb walk the value, pass msgpack's native types through
(None, bool, str, bytes, float, ints in [-2^63, 2^64), arrays -> tuples because the reader uses use_list=False, maps),
call `default` for everything else - in particular for ints outside that range, which is how the varint branch is reached -
and call `ext_hook` for extension nodes on the way back. It lets a harness compare the *tree* the repo hands to msgpack and
keeps carrier values symbolic. Validated against the real msgpack on concrete trees (see validate())."""
import functools
import types
from contextlib import contextmanager


class Ext:
    def __init__(self, code, data):
        self.code = code
        self.data = data

    def __eq__(self, other):
        return isinstance(other, Ext) and self.code == other.code and self.data == other.data

    def __repr__(self):
        return f"Ext({self.code}, {self.data!r})"


def packb(obj, default=None, **kw):
    def walk(o):
        if o is None or isinstance(o, (bool, str, bytes, float)):
            return o
        if isinstance(o, int):
            if -(2**63) <= o < 2**64:
                return o
            return walk(default(o))
        if isinstance(o, Ext):
            return Ext(o.code, o.data)
        if isinstance(o, (list, tuple)):
            return tuple(walk(x) for x in o)
        if isinstance(o, dict):
            return {walk(k): walk(v) for k, v in o.items()}
        return walk(default(o))

    return walk(obj)


def unpackb(data, ext_hook=None, **kw):
    def walk(o):
        if isinstance(o, Ext):
            return ext_hook(o.code, o.data)
        if isinstance(o, tuple):
            return tuple(walk(x) for x in o)
        if isinstance(o, dict):
            return {walk(k): walk(v) for k, v in o.items()}
        return o

    return walk(data)


@contextmanager
def installed():
    """Replace msgpack in flow.record.packer by the tree-level model for the duration of the block."""
    import flow.record.packer as P

    saved = (P.msgpack, P.packb, P.unpackb)
    P.msgpack = types.SimpleNamespace(ExtType=Ext)
    P.packb = functools.partial(packb)
    P.unpackb = functools.partial(unpackb)
    try:
        yield P
    finally:
        P.msgpack, P.packb, P.unpackb = saved


def validate():
    """Concrete validation against the real msgpack: same decoded result for a set of records packed by the real packer."""
    import io

    from flow.record import GroupedRecord, RecordDescriptor
    from flow.record.packer import RecordPacker

    D = RecordDescriptor("t/r", [("varint", "n"), ("string", "s"), ("bytes", "b"), ("string[]", "l"), ("record", "r")])
    E = RecordDescriptor("t/e", [("varint", "big")])
    recs = [D(1, "a", b"\x00", ["x"], E(2**70, _generated=1), _generated=1), E(-(2**64), _generated=1), GroupedRecord("g", [E(5, _generated=1), D(2, None, None, [], None, _generated=1)])]

    def run():
        frames = []
        w = RecordPacker()
        w.on_descriptor.add_handler(lambda d: frames.append(w.pack(d)))
        for r in recs:
            frames.append(w.pack(r))
        rd = RecordPacker()
        out = []
        for f in frames:
            o = rd.unpack(f)
            if hasattr(o, "recordType"):
                rd.register(o)
            else:
                out.append(repr(o))
        return out

    real = run()
    with installed():
        model = run()
    return {"ok": real == model, "detail": f"{len(real)} records decoded identically by real msgpack and by the tree model" if real == model else f"real {real} != model {model}"}
