"""Worker-side execution of one obligation (runs inside a pool process)."""
import ast
import functools
import importlib
import inspect
import signal
import time
import traceback
import warnings

warnings.simplefilter("ignore")

from vf import prelude  # noqa: E402  (installs the CrossHair adjustments)
from vf.ob import Ob, result  # noqa: E402

from crosshair.core_and_libs import analyze_function, run_checkables  # noqa: E402
from crosshair.options import AnalysisOptionSet  # noqa: E402


class HardTimeout(Exception):
    pass


def _alarm(signum, frame):
    raise HardTimeout()


def parse_cex(message: str):
    """Extract the argument values from CrossHair's 'when calling f(...)' text."""
    if " when calling " not in message:
        return None
    call = message.split(" when calling ", 1)[1]
    # cut a trailing " (which returns ...)" / " (which raises ...)"
    depth = 0
    end = None
    in_str = None
    i = 0
    while i < len(call):
        c = call[i]
        if in_str:
            if c == "\\":
                i += 2
                continue
            if c == in_str:
                in_str = None
        elif c in "'\"":
            in_str = c
        elif c in "([{":
            depth += 1
        elif c in ")]}":
            depth -= 1
            if depth == 0:
                end = i + 1
                break
        i += 1
    if end is None:
        return None
    try:
        node = ast.parse(call[:end], mode="eval").body
        pos = [ast.literal_eval(a) for a in node.args]
        kw = {k.arg: ast.literal_eval(k.value) for k in node.keywords}
        return {"pos": pos, "kw": kw, "text": call[:end]}
    except Exception:
        return {"pos": None, "kw": None, "text": call[:end]}


def make_twin(fn):
    """Reachability twin: same body, result forced to False. Must come back POST_FAIL."""

    @functools.wraps(fn)
    def twin(*a, **k):
        fn(*a, **k)
        return False

    twin.__signature__ = inspect.signature(fn)
    twin.__doc__ = fn.__doc__
    return twin


def _analyze(fn, timeout, report_all=True):
    opts = AnalysisOptionSet(per_condition_timeout=timeout, report_all=report_all)
    return list(run_checkables(analyze_function(fn, opts)))


def run_xh(ob: Ob):
    mod = importlib.import_module(ob.module)
    fn = getattr(mod, ob.factory)(**ob.args)
    prelude.reset_stats()
    t0 = time.time()
    msgs = _analyze(fn, ob.timeout)
    stats = prelude.snapshot()
    wall = time.time() - t0
    states = [m.state.name for m in msgs]
    base = dict(paths=stats["paths"], solver_calls=stats["checks"], solver_s=round(stats["solver_s"], 4), wall_s=round(wall, 3))
    if not msgs:
        return result(ob, "error", detail="no condition analysed", **base)
    m = msgs[0]
    if any(s in ("POST_FAIL", "EXEC_ERR", "POST_ERR", "PRE_INVALID", "SYNTAX_ERR") for s in states):
        bad = [x for x in msgs if x.state.name in ("POST_FAIL", "EXEC_ERR", "POST_ERR", "PRE_INVALID", "SYNTAX_ERR")][0]
        if "HarnessInconclusive" in bad.message:
            return result(ob, "inconclusive", detail=f"outside the stand-ins' vocabulary: {bad.message}"[:400], **base)
        return result(ob, "candidate", detail=f"{bad.state.name}: {bad.message}"[:600], cex=parse_cex(bad.message), **base)
    if all(s == "CONFIRMED" for s in states):
        # vacuity: the twin must be refutable
        prelude.reset_stats()
        tw = _analyze(make_twin(fn), min(ob.timeout, 10.0), report_all=False)
        tstates = [x.state.name for x in tw]
        if not any(s == "POST_FAIL" for s in tstates):
            return result(ob, "vacuous", detail=f"reachability twin came back {tstates}", **base)
        if ob.hunt_only:
            return result(ob, "inconclusive", detail="hunt-only obligation: no counterexample found (CONFIRMED is not claimed)", **base)
        return result(ob, "discharged", detail="Confirmed over all paths; twin refuted", **base)
    return result(ob, "inconclusive", detail=f"{states}: {m.message}"[:300], **base)


def run_smt(ob: Ob):
    mod = importlib.import_module(ob.module)
    t0 = time.time()
    out = getattr(mod, ob.factory)(**ob.args)
    wall = time.time() - t0
    verdict = out.get("verdict")
    base = dict(
        paths=out.get("queries", 0),
        solver_calls=out.get("queries", 0),
        solver_s=round(out.get("solver_s", 0.0), 4),
        wall_s=round(wall, 3),
    )
    extra = {k: out[k] for k in ("validated", "cross_checked", "witness", "functions") if k in out}
    if verdict == "unsat" and "disagree:" in str(out.get("detail", "")):
        # the second solver (cvc5) answered differently on one of the queries: never counted as decided
        return result(ob, "inconclusive", detail="solvers disagree: " + str(out.get("detail", ""))[:300], **base, **extra)
    if verdict == "unsat":
        return result(ob, "discharged", detail=out.get("detail", "all queries unsat"), **base, **extra)
    if verdict == "sat":
        return result(ob, "candidate", detail=out.get("detail", "sat"), cex={"pos": None, "kw": out.get("model"), "text": str(out.get("model"))}, **base, **extra)
    if verdict == "error":
        return result(ob, "error", detail=out.get("detail", ""), **base, **extra)
    return result(ob, "inconclusive", detail=out.get("detail", str(verdict)), **base, **extra)


def run_side(ob: Ob):
    mod = importlib.import_module(ob.module)
    t0 = time.time()
    out = getattr(mod, ob.factory)(**ob.args)
    return result(ob, "side-ok" if out.get("ok") else "side-fail", detail=str(out.get("detail", ""))[:600], cex=out.get("cex"), wall_s=round(time.time() - t0, 3))


def run_ob(ob_json):
    ob = Ob(**ob_json)
    hard = int(ob.timeout * 3 + 60)
    signal.signal(signal.SIGALRM, _alarm)
    signal.alarm(hard)
    t0 = time.time()
    try:
        if ob.kind == "xh":
            return run_xh(ob)
        if ob.kind == "smt":
            return run_smt(ob)
        if ob.kind == "side":
            return run_side(ob)
        return result(ob, "error", detail=f"unknown kind {ob.kind}")
    except HardTimeout:
        return result(ob, "inconclusive", detail=f"hard timeout after {hard}s", wall_s=round(time.time() - t0, 3))
    except BaseException as e:  # CrossHair internals raise BaseException subclasses
        if isinstance(e, (KeyboardInterrupt, SystemExit)):
            raise
        tb = traceback.format_exc(limit=6)
        name = type(e).__name__
        # CrossHair internal problems are inconclusive; errors in our own harness code are errors
        verdict = "inconclusive" if name in ("CrossHairInternal", "UnknownSatisfiability", "NotDeterministic", "IgnoreAttempt", "UnexploredPath") else "error"
        return result(ob, verdict, detail=f"{name}: {e}\n{tb}"[:1200], wall_s=round(time.time() - t0, 3))
    finally:
        signal.alarm(0)
