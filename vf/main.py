"""Driver: python -m vf.main <property> --tier quick|thorough [--replay file] [--only text] [--jobs n]

Exit status: 0 = held on everything explored (known findings and inconclusive items are reported, not failed),
1 = a violation that reproduces through the public API and is not a listed known finding,
3 = the machinery itself is broken (nothing could be decided).
"""
import argparse
import hashlib
import importlib
import inspect
import json
import multiprocessing as mp
import os
import sys
import time
import traceback

VERIF = os.path.dirname(os.path.dirname(os.path.abspath(__file__)))
REPO = os.environ.get("VERIF_REPO", "/repo")


def _init_worker():
    import vf.worker  # noqa: F401


def _run(ob_json):
    from vf.worker import run_ob

    return run_ob(ob_json)


def _replay(args):
    """runs in a pool process: the harness's independent replay of one candidate"""
    modname, r = args
    mod = importlib.import_module(modname)
    try:
        return mod.replay(r)
    except Exception as e:  # noqa: BLE001
        return {"reproduced": False, "what": f"replay raised {type(e).__name__}: {e}", "trace": traceback.format_exc(limit=4)}


def load_known():
    p = os.path.join(VERIF, "known_findings.json")
    if not os.path.exists(p):
        return []
    return json.load(open(p))["findings"]


def source_digest(qualname):
    """sha1 of the source text of a repo function/class named 'module:attr.path'."""
    try:
        modname, _, path = qualname.partition(":")
        obj = importlib.import_module(modname)
        for part in path.split("."):
            obj = getattr(obj, part)
        if isinstance(obj, (staticmethod, classmethod)):
            obj = obj.__func__
        if isinstance(obj, property):
            obj = obj.fget
        obj = inspect.unwrap(obj) if callable(obj) else obj
        src = inspect.getsource(obj)
        return hashlib.sha1(src.encode()).hexdigest()[:12]
    except Exception as e:  # noqa: BLE001
        return f"unavailable ({type(e).__name__})"


def main(argv=None):
    ap = argparse.ArgumentParser()
    ap.add_argument("prop")
    ap.add_argument("--tier", default=os.environ.get("VERIF_TIER") or "quick", choices=["quick", "thorough"])
    ap.add_argument("--replay")
    ap.add_argument("--only", help="run only obligations whose id contains this text")
    ap.add_argument("--jobs", type=int, default=int(os.environ.get("VERIF_JOBS", "16")))
    ap.add_argument("--no-evidence", action="store_true")
    ap.add_argument("-v", action="store_true")
    ap.add_argument("--dump", help="write every obligation result to this JSON file (debugging)")
    args = ap.parse_args(argv)
    seed = int(os.environ.get("VERIF_SEED", "0") or 0)
    pid = args.prop

    import flow.record

    if not os.path.realpath(flow.record.__file__).startswith(os.path.realpath(REPO) + os.sep):
        print(f"HARNESS-ERROR: flow.record resolves to {flow.record.__file__}, expected under {REPO}", file=sys.stderr)
        return 3

    mod = importlib.import_module(f"harness.{pid}")
    known = [k for k in load_known() if k["property"] == pid]

    if args.replay:
        data = json.load(open(args.replay))
        out = mod.replay(data["result"])
        print(json.dumps(out, indent=1, default=str))
        if out and out.get("reproduced"):
            if any(k["status"] == "known" and k["key"] == out.get("key") for k in known):
                print(f"KNOWN-FINDING: property={pid} {out.get('what')}")
                return 0
            print(f"VIOLATION property={pid} replay={args.replay}")
            return 1
        return 0

    t0 = time.time()
    obs = mod.obligations(args.tier, seed)
    if args.only:
        obs = [o for o in obs if args.only in o.id]
    # longest first, so that the pool drains evenly
    order = sorted(range(len(obs)), key=lambda i: -obs[i].timeout)
    results = [None] * len(obs)
    jobs = max(1, min(args.jobs, len(obs)))
    ctx = mp.get_context("fork")
    with ctx.Pool(jobs, initializer=_init_worker, maxtasksperchild=40) as pool:
        pending = [(i, pool.apply_async(_run, (obs[i].to_json(),))) for i in order]
        done = 0
        for i, fut in pending:
            try:
                results[i] = fut.get(timeout=obs[i].timeout * 3 + 180)
            except Exception as e:  # noqa: BLE001
                from vf.ob import result

                results[i] = result(obs[i], "inconclusive", detail=f"worker failure: {type(e).__name__}: {e}")
            done += 1
            if args.v:
                r = results[i]
                print(f"[{done}/{len(obs)}] {r['verdict']:12s} {r['wall_s']:7.1f}s {r['id']} {r['detail'][:100] if r['verdict'] not in ('discharged', 'side-ok') else ''}", file=sys.stderr, flush=True)

    # ------------------------------------------------------------- candidates -> replay
    violations = []
    known_hits = {}
    spurious = 0
    replayed = 0
    rep_dir = os.path.join(VERIF, "evidence", "replays")
    cands = [r for r in results if r["verdict"] in ("candidate", "side-fail")]
    outs = {}
    if len(cands) > 2:
        # many candidates (a badly broken tree): replay them in parallel, each in its own process
        with ctx.Pool(max(1, min(args.jobs, len(cands))), maxtasksperchild=8) as pool:
            futs = [(id(r), pool.apply_async(_replay, ((f"harness.{pid}", r),))) for r in cands]
            for key, fut in futs:
                try:
                    outs[key] = fut.get(timeout=1800)
                except Exception as e:  # noqa: BLE001
                    outs[key] = {"reproduced": False, "what": f"replay did not finish: {type(e).__name__}: {e}"}
    for r in cands:
        replayed += 1
        if id(r) in outs:
            out = outs[id(r)]
        else:
            try:
                out = mod.replay(r)
            except Exception as e:  # noqa: BLE001
                out = {"reproduced": False, "what": f"replay raised {type(e).__name__}: {e}", "trace": traceback.format_exc(limit=4)}
        r["replay"] = out
        if not out or not out.get("reproduced"):
            spurious += 1
            r["verdict"] = "spurious"
            continue
        key = out.get("key", r["id"])
        hit = [k for k in known if k["status"] == "known" and k["key"] == key]
        if hit:
            r["verdict"] = "known-finding"
            known_hits.setdefault(key, hit[0].get("what") or out.get("what"))
            continue
        r["verdict"] = "violation"
        if key in [k for _, _, k in violations]:
            continue  # same failing input class already reported by another obligation
        os.makedirs(rep_dir, exist_ok=True)
        path = os.path.join(rep_dir, f"{pid}-{len(violations)}.json")
        json.dump({"property": pid, "result": r}, open(path, "w"), indent=1, default=str)
        violations.append((path, out.get("what", ""), key))

    for key, what in known_hits.items():
        print(f"KNOWN-FINDING: property={pid} {what} [{key}]")

    if args.dump:
        json.dump(results, open(args.dump, "w"), indent=1, default=str)

    # ------------------------------------------------------------- evidence
    wall = time.time() - t0
    solver_obs = [r for r in results if r["kind"] in ("xh", "smt")]
    discharged = [r for r in solver_obs if r["verdict"] == "discharged"]
    inconclusive = [r for r in solver_obs if r["verdict"] == "inconclusive"]
    errors = [r for r in results if r["verdict"] == "error"]
    vacuous = [r for r in solver_obs if r["verdict"] == "vacuous"]
    sides = [r for r in results if r["kind"] == "side"]
    paths = sum(r["paths"] for r in solver_obs)
    calls = sum(r["solver_calls"] for r in solver_obs)
    solver_s = round(sum(r["solver_s"] for r in solver_obs), 3)
    validated = replayed + sum(int(r.get("validated", 0) or 0) for r in results) + len([s for s in sides if s["verdict"] == "side-ok"])
    samples = []
    seen_groups = set()
    for r in results:
        if r["group"] in seen_groups and r["verdict"] in ("discharged", "side-ok"):
            continue
        seen_groups.add(r["group"])
        samples.append({k: r[k] for k in ("id", "kind", "verdict", "args", "bounds", "paths", "solver_calls", "solver_s", "wall_s")} | {"detail": r["detail"][:200]})
    samples = samples[:60]
    by_verdict = {}
    for r in results:
        by_verdict[r["verdict"]] = by_verdict.get(r["verdict"], 0) + 1
    functions = {q: source_digest(q) for q in getattr(mod, "FUNCTIONS", [])}
    import z3

    try:
        import crosshair

        xh_version = crosshair.__version__
    except Exception:  # noqa: BLE001
        xh_version = "?"
    evidence = {
        "property_id": pid,
        "tier": args.tier,
        "seed": seed,
        "level": "model_checking",
        "coverage": {
            "states": max(paths, 0),
            "transitions": max(calls, 0),
            "traces_validated_against_impl": validated,
            "samples": samples,
            "obligations": len(solver_obs),
            "discharged": len(discharged),
            "inconclusive": len(inconclusive),
            "vacuous": len(vacuous),
            "spurious": spurious,
            "errors": len(errors),
            "side_conditions": {"total": len(sides), "ok": len([s for s in sides if s["verdict"] == "side-ok"])},
            "verdicts": by_verdict,
            "solver_s": solver_s,
            "evaluations": len(results),
            "distinct_nontrivial": len([r for r in discharged if r["paths"] > 1]),
            "rule": "one evaluation = one obligation (a real repo function or an encoding generated from its source, with symbolic inputs); "
            "non-trivial = discharged over more than one symbolic path / solver query and its reachability twin refuted",
            "exhaustive": False,
            "explanation": "states = symbolic paths closed by CrossHair plus SMT queries; transitions = solver check() calls; "
            "every discharged obligation holds for ALL values of its symbolic inputs within 'bounds'",
            "functions_encoded": functions,
            "bounds": getattr(mod, "BOUNDS", {}),
            "stubs": getattr(mod, "STUBS", []),
            "outside_claim": getattr(mod, "OUTSIDE", []),
            "engines": {"crosshair-tool": xh_version, "z3": z3.get_version_string(), "python": sys.version.split()[0]},
            "inconclusive_items": [{"id": r["id"], "detail": r["detail"][:160]} for r in inconclusive + vacuous + errors][:40],
            "known_findings_seen": sorted(known_hits),
            "repo": REPO,
        },
        "assumptions": getattr(mod, "ASSUMPTIONS", []),
        "wall_s": round(wall, 2),
        "violations": len(violations),
    }
    if not args.no_evidence and not os.environ.get("VERIF_REPO"):
        os.makedirs(os.path.join(VERIF, "evidence"), exist_ok=True)
        json.dump(evidence, open(os.path.join(VERIF, "evidence", f"{pid}.json"), "w"), indent=1, default=str)

    print(
        f"{pid} tier={args.tier} obligations={len(solver_obs)} discharged={len(discharged)} inconclusive={len(inconclusive)} "
        f"vacuous={len(vacuous)} spurious={spurious} errors={len(errors)} side={len(sides)} known={len(known_hits)} "
        f"violations={len(violations)} paths={paths} solver_calls={calls} solver_s={solver_s} wall={wall:.1f}s"
    )
    for r in inconclusive + vacuous + errors:
        print(f"  {r['verdict'].upper()}: {r['id']}: {r['detail'][:300]}", file=sys.stderr)
    for r in results:
        if r["verdict"] == "spurious":
            print(f"  SPURIOUS (did not reproduce through the public API): {r['id']}: {r['detail'][:200]} :: {str(r.get('replay'))[:200]}", file=sys.stderr)
    if violations:
        for path, what, key in violations:
            print(f"  violation: {what} [{key}]")
            print(f"VIOLATION property={pid} replay={path}")
        return 1
    if solver_obs and not discharged:
        print("HARNESS-ERROR: no obligation could be decided", file=sys.stderr)
        return 3
    return 0


if __name__ == "__main__":
    sys.exit(main())
