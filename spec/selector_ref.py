"""Reference meaning of selector expressions: plain Python evaluation over a plain object that holds the field values,
with independent re-implementations of the documented helper functions (written from the documentation, not from
flow/record/selector.py)."""
import ast
import ipaddress as _ip
import re


class Plain:
    """Plain attribute holder standing for the record (``r``)."""


class Missing(Exception):
    pass


def _lower(s):
    return s.lower() if isinstance(s, str) else s


def _upper(s):
    return s.upper() if isinstance(s, str) else s


class RefIP:
    def __init__(self, a):
        self.v = _ip.ip_address(a.v if isinstance(a, RefIP) else a)

    def __eq__(self, o):
        try:
            return self.v == _ip.ip_address(o.v if isinstance(o, RefIP) else o)
        except ValueError:
            return False

    def __hash__(self):
        return hash(self.v)


class RefNet:
    def __init__(self, a):
        self.v = _ip.ip_network(a.v if isinstance(a, RefNet) else a)

    def __eq__(self, o):
        try:
            return self.v == _ip.ip_network(o.v if isinstance(o, RefNet) else o)
        except ValueError:
            return False

    def __hash__(self):
        return hash(self.v)

    def __contains__(self, o):
        try:
            if isinstance(o, RefIP):
                o = o.v
            n = _ip.ip_network(o.v if isinstance(o, RefNet) else o)
        except (ValueError, TypeError):
            return False
        if n.version != self.v.version:
            return False
        return self.v.network_address <= n.network_address and self.v.broadcast_address >= n.broadcast_address


class _NetNS:
    ipaddress = IPAddress = RefIP
    ipnetwork = IPNetwork = RefNet


class RefTypeSet:
    """``Type.<typename>``: the values of all fields of that type; every operator means 'for any of them'."""

    def __init__(self, names, values):
        self._names = names
        self._values = values

    def __iter__(self):
        return iter(self._names)

    def _any(self, f):
        for v in self._values:
            if f(v):
                return True
        return False

    def __eq__(self, o):
        return self._any(lambda v: v == o)

    def __ne__(self, o):
        return self._any(lambda v: v != o)

    def __lt__(self, o):
        return self._any(lambda v: v < o)

    def __le__(self, o):
        return self._any(lambda v: v <= o)

    def __gt__(self, o):
        return self._any(lambda v: v > o)

    def __ge__(self, o):
        return self._any(lambda v: v >= o)

    def __contains__(self, o):
        return self._any(lambda v: o in v)

    __hash__ = None


class RefType:
    def __init__(self, fields, values):
        self._fields = fields
        self._vals = values

    def __getattr__(self, t):
        if t.startswith("_"):
            raise AttributeError(t)
        names = [n for ft, n in self._fields if ft == t]
        return RefTypeSet(names, [self._vals[n] for n in names if self._vals[n] is not None or True])


def _uint(bits):
    def f(v):
        v = int(v)
        if v < 0 or v >= 1 << bits:
            raise ValueError(v)
        return v

    return f


def namespace(values, fields, recname):
    """values: {field name: value}; fields: [(typename, fieldname)] in declaration order."""
    r = Plain()
    for k, v in values.items():
        setattr(r, k, v)
    present = [n for _, n in fields]

    def field_values(fs):
        out = []
        for f in fs:
            if f in present:
                out.append(values[f])
        return out

    def field_equals(rec, fs, strings, nocase=True):
        want = [_lower(s) for s in strings] if nocase else list(strings)
        for v in field_values(fs):
            if nocase:
                v = _lower(v)
            for s in want:
                if s == v:
                    return True
        return False

    def field_contains(rec, fs, strings, nocase=True, word_boundary=False):
        want = [_lower(s) for s in strings] if nocase else list(strings)
        for v in field_values(fs):
            if nocase:
                v = _lower(v)
            for s in want:
                if not word_boundary:
                    if s in v:
                        return True
                else:
                    if v is None:
                        if s is None:
                            return True
                        continue
                    if not isinstance(v, str):
                        continue
                    if re.search(r"\b" + re.escape(s) + r"\b", v) is not None:
                        return True
        return False

    def field_regex(rec, fs, regex):
        for v in field_values(fs):
            if re.search(regex, v) is not None:
                return True
        return False

    return {
        "r": r,
        "lower": _lower,
        "upper": _upper,
        "name": lambda rec: recname,
        "names": lambda rec: {recname},
        "has_field": lambda rec, f: f in present,
        "field_equals": field_equals,
        "field_contains": field_contains,
        "field_regex": field_regex,
        "Type": RefType(fields, values),
        "net": _NetNS,
        "string": str,
        "wstring": str,
        "varint": int,
        "uint16": _uint(16),
        "uint32": _uint(32),
        "str": str,
        "any": any,
        "all": all,
        "len": len,
    }


class _GenToList(ast.NodeTransformer):
    def visit_GeneratorExp(self, node):
        self.generic_visit(node)
        return ast.copy_location(ast.ListComp(elt=node.elt, generators=node.generators), node)


def subexpression_codes(expr):
    """Code objects that together evaluate every sub-expression eagerly, so that the reference can establish
    'all sub-expressions are defined': the whole expression with generator expressions turned into lists (Python's any/all
    stop early), plus every operand that Python's short-circuit rules may skip (and/or operands after the first,
    comparators of a chain after the second operand, conditional-expression branches)."""
    tree = ast.parse(expr, mode="eval")
    codes = []

    def emit(node):
        n = _GenToList().visit(ast.parse(ast.unparse(node), mode="eval"))
        ast.fix_missing_locations(n)
        codes.append(compile(n, "<sub>", "eval"))

    def walk(node):
        if isinstance(node, (ast.GeneratorExp, ast.ListComp, ast.SetComp, ast.DictComp)):
            return  # inner scope: depends on the loop variables; covered by the list form of the enclosing expression
        if isinstance(node, ast.BoolOp):
            for v in node.values[1:]:
                emit(v)
        elif isinstance(node, ast.Compare) and len(node.ops) > 1:
            for c in node.comparators[1:]:
                emit(c)
        elif isinstance(node, ast.IfExp):
            emit(node.body)
            emit(node.orelse)
        for child in ast.iter_child_nodes(node):
            walk(child)

    emit(tree.body)
    walk(tree.body)
    return codes


def evaluate(expr_code, sub_codes, ns):
    """Returns (defined, value). 'defined' is False when any sub-expression raises in plain Python."""
    try:
        for c in sub_codes:
            eval(c, dict(ns))
        return True, bool(eval(expr_code, dict(ns)))
    except Exception:  # noqa: BLE001 - any exception means 'not defined on this record'
        return False, None


def compile_ref(expr):
    return compile(expr, "<ref>", "eval"), subexpression_codes(expr)
