"""Selector programs for C07/C08/C10: generated from the documented language, restricted to what the engine's own
tables (AST_OPERATORS / AST_COMPARATORS, read at run time) declare supported.

Record shape the programs are written against:
    test/rec: varint n, varint m, string s, string t, boolean b, varint o (o may be unset)

Every program is (text, tags). Tags:
    may-reject - valid Python whose support is not promised: the engine must give Python's value OR refuse with an error
    outside  - uses an operator that is absent from the interpreted engine's tables: the interpreted engine must
               raise; the compiled engine is plain Python and must agree with the reference
    hunt     - known to make CrossHair realise values (floats, case mapping, int->str): explored for counterexamples
               only, never counted as decided
    small    - integers are restricted to 0..255 inside the obligation (bit operators on unbounded ints do not close)
"""
import ast
import itertools
import random

FIELDS = [("varint", "n"), ("varint", "m"), ("string", "s"), ("string", "t"), ("boolean", "b"), ("varint", "o")]
RECNAME = "test/rec"

INT_ATOMS = ["r.n", "r.m", "0", "1", "3"]
STR_ATOMS = ["r.s", "r.t", "'a'", "'ab'", "''"]
BOOL_ATOMS = ["r.b", "True", "False"]
CMP = ["==", "!=", "<", "<=", ">", ">="]

SUPPORTED_BINOPS = {"Add": "+", "Mult": "*", "Div": "/", "Mod": "%", "BitAnd": "&", "BitOr": "|"}
ALL_BINOPS = dict(SUPPORTED_BINOPS, Sub="-", FloorDiv="//", Pow="**", BitXor="^", LShift="<<", RShift=">>")


def engine_tables():
    from flow.record import selector as S

    ops = {k.__name__ for k in S.AST_OPERATORS}
    cmps = {k.__name__ for k in S.AST_COMPARATORS}
    return ops, cmps


def int_operands(depth):
    out = [(a, set()) for a in INT_ATOMS]
    if depth >= 1:
        for a, b in (("r.n", "r.m"), ("r.n", "1"), ("r.m", "3"), ("3", "r.n")):
            out.append((f"{a} + {b}", set()))
            out.append((f"{a} * {b}", set()))
        for a, b in (("r.n", "3"), ("r.n", "r.m"), ("r.m", "2")):
            out.append((f"{a} % {b}", set()))
        for a, b in (("r.n", "r.m"), ("r.n", "3")):
            out.append((f"{a} & {b}", {"small"}))
            out.append((f"{a} | {b}", {"small"}))
        out.append(("r.n / 2", {"hunt"}))
        out.append(("len(r.s)", {"compiled-only"}))
        # operators outside the interpreted engine's tables
        for name, sym in ALL_BINOPS.items():
            if name not in SUPPORTED_BINOPS:
                out.append((f"r.n {sym} 2", {"outside", "small"} if name in ("BitXor", "LShift", "RShift") else {"outside"}))
        out.append(("-r.n", {"outside"}))
        out.append(("~r.n", {"outside"}))
    if depth >= 2:
        out.append(("(r.n + r.m) * 2", set()))
        out.append(("(r.n + 1) % 3", set()))
        out.append(("r.n * r.m + r.n", set()))
        out.append(("(r.n | 1) & r.m", {"small"}))
        out.append(("r.n + r.m + 1", set()))
    return out


def str_operands(depth):
    out = [(a, set()) for a in STR_ATOMS]
    if depth >= 1:
        out.append(("r.s + r.t", set()))
        out.append(("r.s + 'a'", set()))
        out.append(("'a' + r.t", set()))
        out.append(("r.s * 2", set()))
        out.append(("lower(r.s)", {"hunt"}))
        out.append(("upper(r.t)", {"hunt"}))
        out.append(("str(r.n)", {"hunt"}))
        out.append(("name(r)", set()))
        out.append(("string('ab')", {"interp-only"}))
    if depth >= 2:
        out.append(("r.s + r.t + 'a'", set()))
        out.append(("lower(r.s + r.t)", {"hunt"}))
        out.append(("(r.s + r.t) * 2", set()))
    return out


def predicates(depth):
    """All predicates whose operands have at most the given depth."""
    P = []

    def add(text, *tagsets):
        tags = set()
        for t in tagsets:
            tags |= set(t)
        P.append((text, frozenset(tags)))

    ints = int_operands(depth)
    strs = str_operands(depth)
    ints0 = int_operands(0)
    strs0 = str_operands(0)

    # ---- comparisons between atoms: all six operators over representative pairs (field/field, field/literal, literal/field)
    for a, b in (("r.n", "r.m"), ("r.n", "0"), ("r.n", "3"), ("r.m", "1"), ("1", "r.n"), ("3", "r.m")):
        for op in CMP:
            add(f"{a} {op} {b}")
    for a, b in (("r.s", "r.t"), ("r.s", "'a'"), ("r.t", "'ab'"), ("r.s", "''"), ("'a'", "r.s"), ("'ab'", "r.t")):
        for op in CMP:
            add(f"{a} {op} {b}")
    # ---- one deep operand against a field and a literal (all six operators), and in second position (three operators)
    for (a, ta) in ints[len(ints0):]:
        if "outside" in ta:
            add(f"{a} == r.m", ta)
            add(f"{a} < 3", ta)
            continue
        ops = CMP if not (ta & {"small", "hunt"}) else ("==", "<")
        for op in ops:
            add(f"{a} {op} r.m", ta)
            add(f"{a} {op} 3", ta)
        for op in ("==", "<", ">="):
            add(f"r.m {op} {a}", ta)
    for (a, ta) in strs[len(strs0):]:
        ops = CMP if not (ta & {"hunt"}) else ("==", "<")
        for op in ops:
            add(f"{a} {op} r.t", ta)
            add(f"{a} {op} 'ab'", ta)
        for op in ("==", "<"):
            add(f"r.t {op} {a}", ta)
    # bool / None / mixed kinds
    for e in ("r.b == True", "r.b != False", "r.b == r.b", "r.b == 1", "r.b", "not r.b", "r.o == None", "r.o != None", "r.o is None",
              "r.o is not None", "r.o == r.n", "r.o != 3", "r.n == r.s", "r.s != r.n", "r.n", "r.s", "not r.s", "not r.n", "r.o",
              "(r.n, r.s) == (1, 'a')", "[r.n, r.m] == [r.m, r.n]", "(r.n, r.m) < (r.m, r.n)", "[r.s] != ['a']", "(r.n,) == (r.m,)",
              "r.o < 3", "r.o >= r.n", "(r.n, r.m) == [r.n, r.m]", "[r.n] != (r.n,)", "(r.n, r.m) in [[r.n, r.m]]", "[r.s] in ((r.s,), [r.t])",
              "(r.s, r.n) in [(r.s, r.n)]", "[r.n, r.m] in ([r.n, r.m], 3)"):
        add(e)
    for e in ("'%s-%s' % (r.s, r.t) == 'a-b'", "'%d' % r.n == '3'", "'%s' % r.s == r.s"):
        add(e, {"hunt"})
    # ---- chained comparisons
    for a, b, c in (("1", "r.n", "3"), ("r.n", "r.m", "3"), ("0", "r.n", "r.m"), ("r.m", "r.n", "r.m"), ("r.n", "r.n + 1", "r.m")):
        for o1, o2 in itertools.product(CMP, CMP):
            if (o1, o2) in (("<", "<"), ("<", "<="), ("<=", "<"), ("==", "=="), ("==", "!="), ("!=", "=="), (">", ">"), (">=", "<"), ("<", ">"), ("!=", "!="), ("<=", ">=")):
                add(f"{a} {o1} {b} {o2} {c}")
    for e in ("'a' <= r.s < 'b'", "r.s == r.t == 'a'", "r.s != r.t != r.s", "1 < r.n < r.m < 10", "r.n == r.m == r.o", "0 <= r.n <= r.m <= r.n",
              "r.n < r.m > 2", "1 == r.n in [1, 2]", "r.s in ['a', 'b'] == True", "r.n < r.m in [3, 4]", "0 < r.n != r.m", "r.n in [1, 2] in [True]"):
        add(e)
    # ---- constructs nested in operand positions (a chain / boolean operation / membership test as operand of another comparison,
    #      inside a list or tuple display, inside arithmetic, inside a generator element or condition)
    for e in ("(1 < r.n < 3) == True", "(1 < r.n < 3) == (r.m > 0)", "(0 < r.m < r.n < 5) in [True]", "(r.n < r.m < 3) != r.b", "r.b == (r.n <= r.m <= 3)",
              "[1 < r.n < 3] == [True]", "(r.n < r.m < 3, r.b) == (True, True)", "(1 < r.n < 3) + 1 == 2", "(r.n > 1) + (r.m > 1) == 2", "(r.n < r.m < 3) * 3 == 3",
              "(r.n > 1 and r.m > 1) == r.b", "(r.b or r.n) == 1", "(r.s and r.t) == 'a'", "(not r.b) == (r.n > 1)", "(r.n in [1, 2]) == (r.m in [1, 2])",
              "(r.s in ['a']) != (r.t == 'a' != r.s)", "(1 < r.n < 3) in [r.b]", "((1 < r.n < 3) == True) == r.b", "(r.n == r.m == 1) == (r.s == r.t == 'a')",
              "any((1 < x < 3) == True for x in [r.n, r.m])", "all((x < r.m < 3) == r.b for x in [r.n, 0])", "any(x for x in [r.n] if 1 < x < 3)",
              "any(x for x in [r.n, r.m] if (0 < x < 3) == True)", "any([1 < r.n < 3, r.m < r.n < 1])", "all(((r.n < r.m < 3), r.b))",
              "(r.n if False else r.m) == r.m"):
        tags = set()
        if " if " in e and "for" in e:
            tags.add("ifs")
        if " if False" in e:
            tags.add("outside")
        add(e, tags)
    # ---- membership
    for e in ("r.n in [1, 2, 3]", "r.n in (1, r.m)", "r.n not in [1, r.m]", "r.n in []", "r.n not in ()", "r.s in ['a', 'bc', r.t]", "r.s not in ('a', r.t)",
              "'a' in r.s", "'ab' in r.s", "r.t in r.s", "r.s not in r.t", "'' in r.s", "r.s in 'abc'", "r.n in [r.n]", "r.b in [True]", "r.o in [None, 1]",
              "r.o not in [None]", "1 in [r.n, r.m]", "'a' in [r.s, r.t]", "'a' in (r.s + r.t)", "r.n + 1 in [r.m, 3]", "r.n % 2 in [0]", "(r.n, r.m) in [(1, 2), (r.m, r.n)]",
              "[r.s] in [['a'], [r.t]]", "r.s in [r.t + 'a', 'b']", "r.n in (r.m + 1, r.m * 2)"):
        add(e)
    # ---- helper functions
    for e in ("name(r) == 'test/rec'", "name(r) != 'test/rec'", "name(r) == r.s", "'test/rec' in names(r)", "r.s in names(r)", "has_field(r, 's')", "has_field(r, 'zz')",
              "has_field(r, 'n') and r.n > 1", "not has_field(r, 'q')",
              "field_equals(r, ['s'], ['a'], nocase=False)", "field_equals(r, ['s', 't'], ['a', 'ab'], nocase=False)", "field_equals(r, ['s', 'zz'], ['a'], nocase=False)",
              "field_equals(r, ['s'], [r.t], nocase=False)", "field_equals(r, [], ['a'], nocase=False)", "field_equals(r, ['s'], [], nocase=False)",
              "field_contains(r, ['s'], ['a'], nocase=False)", "field_contains(r, ['s', 't'], ['a', 'b'], nocase=False)", "field_contains(r, ['zz', 't'], ['b'], nocase=False)",
              "field_contains(r, ['s'], [r.t], nocase=False)",
              "field_regex(r, ['s'], 'a+')", "field_regex(r, ['s', 't'], '^ab?$')", "field_regex(r, ['zz', 's'], 'b')", "field_regex(r, ['s'], '[a-c]x')",
              "field_equals(r, Type.string, ['a'], nocase=False)", "field_contains(r, Type.string, ['a'], nocase=False)", "field_regex(r, Type.string, 'a')"):
        add(e)
    for e in ("field_contains(r, ['s'], ['a'], nocase=False, word_boundary=True)", "field_equals(r, ['s'], ['A'])", "field_equals(r, ['s', 't'], ['a'])", "field_contains(r, ['s'], ['A'])", "field_contains(r, ['s', 't'], ['b'], word_boundary=True)",
              "lower(r.s) == upper(r.t)", "lower(r.n) == r.n", "upper(r.o) == None"):
        add(e, {"hunt"})
    # ---- typed matchers
    for e in ("Type.varint == 3", "Type.varint != 3", "Type.varint > r.m", "Type.varint <= 3", "Type.varint >= r.n", "Type.varint < 0", "Type.string == 'ab'", "Type.string != r.s",
              "'a' in Type.string", "r.t in Type.string", "Type.string in ['a', 'b']", "Type.varint in [1, r.m]", "Type.varint not in [1, 2]", "Type.boolean == True",
              "Type.boolean == r.b", "Type.uint16 == 1", "Type.string >= 'b'", "Type.string < r.s"):
        add(e)
    # Type.varint ordering against an unset field would compare None: excluded by definedness in the reference
    # ---- field-type constructors on literals
    for e in ("net.ipaddress('1.2.3.4') == '1.2.3.4'", "net.ipaddress('1.2.3.4') == '1.2.3.5'", "net.ipaddress('10.0.0.1') in net.ipnetwork('10.0.0.0/8')",
              "net.ipaddress('11.0.0.1') in net.ipnetwork('10.0.0.0/8')", "'10.1.0.0/16' in net.ipnetwork('10.0.0.0/8')", "net.ipnetwork('10.0.0.0/8') == '10.0.0.0/8'",
              "net.ipaddress('::1') == '::1'", "net.ipaddress('::1') in net.ipnetwork('10.0.0.0/8')", "net.IPAddress('1.2.3.4') == net.ipaddress('1.2.3.4')",
              ):
        add(e)
    # bare field-type constructors exist only in the interpreted engine's namespace (the compiled engine offers 'net' only)
    for e in ("string('ab') == r.s", "varint(3) == r.n", "varint(3) < r.n", "uint16(5) >= r.m", "string('a') in r.s", "string('a') + r.s == 'ab'"):
        add(e, {"interp-only"})
    # ---- any / all over generator expressions
    for e in ("any(x == r.n for x in [1, 2, r.m])", "all(x != r.s for x in ['a', r.t])", "any(x > 1 for x in (r.n, r.m))", "all(x for x in [r.b, r.n])",
              "any(x == y for x in [1, r.n] for y in [r.m, 2])", "any(x in r.s for x in ['a', 'b'])", "all(len(x) > 1 for x in [r.s, r.t])", "any(x == 'a' for x in r.s)",
              "any(x for x in [])", "all(x for x in [])", "any(x == r.n for x in [r.m] if x > 1)", "any(r.n < x < r.m for x in [1, 2, 3])",
              "any([r.n == 1, r.m == 1])", "all((r.b, r.n > 0))", "any(lower(x) == 'a' for x in [r.s, r.t])", "any(x + 1 == r.m for x in [r.n, 2])"):
        tags = set()
        if "len(" in e:
            tags.add("compiled-only")
        if "lower(" in e:
            tags.add("hunt")
        if " if " in e:
            tags.add("ifs")
        add(e, tags)
    # ---- several generator expressions in one program: the same loop variable used one after the other is plain Python; a loop
    #      variable re-bound by a NESTED generator must shadow (Python) or be refused - never leak into the outer element
    for e in ("any(x > 2 for x in [r.n, r.m]) and any(x > 4 for x in [r.m])", "any(x == r.n for x in [1, 2]) or all(x == r.m for x in [3])", "any(x == 1 for x in [r.n]) == any(x == 1 for x in [r.m])",
              "any(x > r.m for x in [r.n]) and not any(x > r.n for x in [r.m])", "all(x for x in [r.b]) and any(x == 'a' for x in [r.s, r.t])",
              "any(x == 1 for x in [r.n] if x) or any(y == 2 for y in [r.m] for x in [1])"):
        add(e, {"ifs"} if " if " in e else set())
    for e in ("any(any(x == 5 for x in [r.m]) and x == 1 for x in [r.n, 1])", "any(all(x > 0 for x in [r.m, 1]) and x < 0 for x in [r.n])", "any(x == r.n and any(x == r.m for x in [1, 2]) for x in [1, 2])",
              "any(any(y == x for y in [r.m]) for x in [r.n])"):
        add(e, {"may-reject"} if e.count("for x") > 1 else set())
    # ---- names used only INSIDE a generator element or condition (nested code objects in the compiled engine)
    for e in ("any(Type.string == x for x in ['a', r.t])", "all(x in Type.string for x in ['a'])", "any(x == 1 for x in [r.n] if Type.varint == r.m)", "any(lower(x) == name(r) for x in [r.s])",
              "any(net.ipaddress(x) == '1.2.3.4' for x in ['1.2.3.4'])", "any(has_field(r, x) for x in [r.s, 'n'])", "all(field_equals(r, [x], ['a'], nocase=False) for x in ['s', 't'])",
              "any(Type.varint > x for x in [r.n, r.m])"):
        add(e, {"ifs"} if " if " in e else set(), {"hunt"} if "lower(" in e else set())
    # ---- tuple displays stay tuples, list displays stay lists
    for e in ("(r.n, r.m) == [r.n, r.m]", "(r.s,) != [r.s]", "[r.n] == (r.n,)", "(r.n, 1) + (2,) == (r.n, 1, 2)", "[1] + [r.n] == [1, r.n]", "(r.n, r.s) == (r.m, r.t)", "[r.n, r.s] == [r.m, r.t]",
              "'%s' % (r.s,) == r.s", "'%s:%s' % (r.s, r.t) == 'a:b'", "(r.n, r.m) in [(1, 2), [1, 2]]", "[r.n, r.m] in [(1, 2)]", "(r.s, r.t) < (r.t, r.s)", "() == []", "(r.b,) == (True,)"):
        add(e, {"hunt"} if "%" in e else set())
    # ---- and / or / not at the top, a few fixed ones (seeded combinations are added by the harness)
    for e in ("r.b and r.n > 1", "not r.b or r.s == 'a'", "r.s and r.t", "r.n or r.m", "r.n == 1 or r.n == 2 or r.n == 3", "r.n > 1 and r.m > 1 and r.b",
              "not (r.n > 1 and r.m < 3)", "r.b and not r.b", "(r.n > 1) == (r.m > 1)", "(r.n > 1 or r.s == 'a') and (r.m == 2 or r.t != 'b')",
              "r.n & 1 == 1", "r.n | r.m == 3", "r.n & r.m", "(r.n & 3) == (r.m | 1)"):
        add(e, {"small"} if ("&" in e or "|" in e) else set())
    # de-duplicate, keep order
    seen = set()
    out = []
    for t, tags in P:
        if t not in seen:
            seen.add(t)
            out.append((t, tags))
    return out


def combinations(preds, count, seed, depth=2):
    """Seeded and/or/not combinations of decided predicates (no hunt/outside ones)."""
    rnd = random.Random(seed)
    pool = [(t, tags) for t, tags in preds if not (tags & {"hunt", "outside", "compiled-only", "interp-only", "ifs", "small", "may-reject"})]
    out = []
    seen = set()
    while len(out) < count and len(seen) < count * 20:
        k = rnd.choice((2, 2, 3))
        parts = [rnd.choice(pool) for _ in range(k)]
        tags = set()
        for _, t in parts:
            tags |= t
        texts = [("not (%s)" % p if rnd.random() < 0.3 else "(%s)" % p) for p, _ in parts]
        if k == 2:
            e = f"{texts[0]} {rnd.choice(('and', 'or'))} {texts[1]}"
        else:
            o1, o2 = rnd.choice(("and", "or")), rnd.choice(("and", "or"))
            e = rnd.choice((f"{texts[0]} {o1} {texts[1]} {o2} {texts[2]}", f"{texts[0]} {o1} ({texts[1]} {o2} {texts[2]})", f"not ({texts[0]} {o1} {texts[1]}) {o2} {texts[2]}"))
        seen.add(e)
        if e not in [x for x, _ in out]:
            out.append((e, frozenset(tags)))
    return out


def uses_only_tables(expr):
    """True iff every operator node of the expression is in the interpreted engine's tables (read at run time)."""
    ops, cmps = engine_tables()
    for node in ast.walk(ast.parse(expr, mode="eval")):
        if isinstance(node, (ast.BinOp, ast.UnaryOp, ast.BoolOp)):
            if type(node.op).__name__ not in ops:
                return False
        if isinstance(node, ast.Compare):
            for o in node.ops:
                if type(o).__name__ not in cmps:
                    return False
    return True


if __name__ == "__main__":
    for d in (1, 2):
        p = predicates(d)
        print(d, len(p), {k: len([1 for _, t in p if k in t]) for k in ("hunt", "outside", "small", "compiled-only", "interp-only")})
