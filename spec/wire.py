"""Independent reference model of the published RecordStream wire format (written from the format description, not
from flow/record/packer.py): magic header frame; frames of a 4-byte big-endian length followed by one msgpack value;
msgpack extension type 14 wrapping [sub-type, payload]; descriptor identifier = (name, first four bytes of SHA-256 over
name + field names/types, big endian)."""
import hashlib
import struct
from datetime import datetime, timezone

import msgpack

MAGIC = b"RECORDSTREAM\n"
EXT = 14
T_RECORD = 0x01
T_DESCRIPTOR = 0x02
T_FIELDTYPE = 0x03
T_DATETIME = 0x10
T_VARINT = 0x11
T_GROUPED = 0x12
RESERVED = ("_source", "_classification", "_generated", "_version")


def descriptor_hash(name, fields):
    """fields: sequence of (typename, fieldname)"""
    data = name + "".join(fname + ftype for ftype, fname in fields)
    return int.from_bytes(hashlib.sha256(data.encode()).digest()[:4], "big")


def varint_payload(v):
    mag = abs(v)
    n = (mag.bit_length() + 7) // 8
    return (v < 0, mag.to_bytes(n, "big"))


def _default(o):
    if isinstance(o, datetime):
        if o.tzinfo is None or o.utcoffset() == timezone.utc.utcoffset(None) and o.tzinfo == timezone.utc:
            payload = (o.year, o.month, o.day, o.hour, o.minute, o.second, o.microsecond)
        else:
            payload = (o.isoformat(),)
        return msgpack.ExtType(EXT, _packb((T_DATETIME, payload)))
    if isinstance(o, int):
        return msgpack.ExtType(EXT, _packb((T_VARINT, varint_payload(o))))
    if isinstance(o, Rec):
        return msgpack.ExtType(EXT, _packb((T_RECORD, ((o.name, descriptor_hash(o.name, o.fields)), tuple(o.values)))))
    if isinstance(o, Desc):
        return msgpack.ExtType(EXT, _packb((T_DESCRIPTOR, (o.name, tuple(tuple(f) for f in o.fields)))))
    if isinstance(o, Grouped):
        return msgpack.ExtType(EXT, _packb((T_GROUPED, (o.name, tuple(((r.name, descriptor_hash(r.name, r.fields)), tuple(r.values)) for r in o.records)))))
    raise TypeError(f"reference encoder: unsupported {type(o).__name__}")


def _packb(o):
    return msgpack.packb(o, default=_default, use_bin_type=True, unicode_errors="surrogateescape")


class Desc:
    def __init__(self, name, fields):
        self.name = name
        self.fields = tuple(tuple(f) for f in fields)


class Rec:
    """values: the declared fields followed by the reserved fields (_source, _classification, _generated, [extras...,] _version)"""

    def __init__(self, name, fields, values):
        self.name = name
        self.fields = tuple(tuple(f) for f in fields)
        self.values = tuple(values)


class Grouped:
    def __init__(self, name, records):
        self.name = name
        self.records = list(records)


def frame(obj):
    blob = _packb(obj)
    return struct.pack(">I", len(blob)) + blob


def header():
    return frame(MAGIC)


def encode_stream(objs):
    return header() + b"".join(frame(o) for o in objs)


# ------------------------------------------------------------------------------------------------ decoder
def _ext_hook(code, data):
    if code != EXT:
        raise ValueError(f"unexpected extension type {code}")
    subtype, payload = msgpack.unpackb(data, ext_hook=_ext_hook, raw=False, use_list=False, unicode_errors="surrogateescape", strict_map_key=False)
    if subtype == T_VARINT:
        neg, mag = payload
        v = int.from_bytes(mag, "big")
        return -v if neg else v
    if subtype == T_DATETIME:
        if len(payload) == 1:
            return ("datetime-iso", payload[0])
        return ("datetime-utc", tuple(payload))
    if subtype == T_RECORD:
        (name, h), values = payload
        return ("record", name, h, tuple(values))
    if subtype == T_DESCRIPTOR:
        name, fields = payload
        return ("descriptor", name, tuple(tuple(f) for f in fields))
    if subtype == T_GROUPED:
        name, members = payload
        return ("grouped", name, tuple(("record", n, h, tuple(v)) for (n, h), v in members))
    raise ValueError(f"unknown sub-type {subtype}")


def decode_stream(data):
    """-> list of decoded frames (the header frame is checked and dropped). Raises ValueError on any format violation."""
    pos = 0
    out = []
    first = True
    while pos < len(data):
        if pos + 4 > len(data):
            raise ValueError("truncated length prefix")
        (n,) = struct.unpack(">I", data[pos : pos + 4])
        body = data[pos + 4 : pos + 4 + n]
        if len(body) != n:
            raise ValueError("truncated frame")
        obj = msgpack.unpackb(body, ext_hook=_ext_hook, raw=False, use_list=False, unicode_errors="surrogateescape", strict_map_key=False)
        if first:
            if obj != MAGIC:
                raise ValueError("stream does not start with the magic header frame")
            first = False
        else:
            out.append(obj)
        pos += 4 + n
    if first:
        raise ValueError("empty stream")
    return out


def check_conformance(frames):
    """Every record / grouped member must be preceded by its descriptor (same name and hash); hash must be the published one."""
    known = {}
    for f in frames:
        if f[0] == "descriptor":
            known[(f[1], descriptor_hash(f[1], f[2]))] = f[2]
        elif f[0] in ("record", "grouped"):
            members = [f] if f[0] == "record" else list(f[2])
            for _, name, h, values in members:
                if (name, h) not in known:
                    raise ValueError(f"record of {name!r} ({h:08x}) before its descriptor")
    return known
